"""STENCIL: recurrence extraction from the recursion kernels and conformance with the Obara-Saika / HGP recurrences
(DESIGN 2.2).

A light symbolic evaluator runs over a kernel's straight-line code.  Every value is an `SV`: a sympy expression for the
generic element plus one label per array axis.  Labels are what lets the extractor
  * follow the Cartesian-component axis ('xyz'): a vector quantity is a sympy function of the generic component `c`;
    indexing that axis with a constant substitutes the component, summing over it expands the three terms;
  * align `np.arange` factors with the target axis they are broadcast against (value = target index + shift);
  * compute, for every table reference on the right-hand side of a store, its offset from the target index.
Nothing is executed: loops are entered once with a symbolic loop variable.
"""
import ast
import itertools

import sympy as sp

from .astutil import dotted
from .report import AnalysisError

c = sp.Symbol("c", integer=True)  # generic Cartesian component


class Lab:
    """Axis label: base identity + slice window (lo from the start, hi from the end, both >= 0)."""

    def __init__(self, base, lo=0, hi=0, unit=False):
        self.base = base  # hashable identity, or None for a broadcast (length-1) axis
        self.lo = lo
        self.hi = hi
        self.unit = unit  # a length-1 window `k:k+1` of a longer axis

    def is_one(self):
        return self.base is None

    def window(self):
        return (self.base, self.lo, self.hi, self.unit)

    def __repr__(self):
        if self.base is None:
            return "1"
        b = self.base if isinstance(self.base, str) else ":".join(str(x) for x in self.base)
        if self.unit:
            return f"{b}[{self.lo}]"
        if self.lo or self.hi:
            return f"{b}[{self.lo}:{(self.hi[1] if isinstance(self.hi, tuple) else -self.hi) if self.hi else ''}]"
        return str(b)


ONE = Lab(None)


class SV:
    """Symbolic value: generic element `e` (sympy) and axis labels (None when the rank is unknown)."""

    def __init__(self, e, labels=(), ar=None):
        self.e = sp.sympify(e)
        self.labels = list(labels) if labels is not None else None
        # np.arange axes that went into this value: arange id -> (position from the right, window label)
        self.ar = dict(ar or {})
        if self.labels is not None:
            n = len(self.labels)
            for k, lab in enumerate(self.labels):
                if isinstance(lab.base, tuple) and lab.base[0] == "ar":
                    self.ar[lab.base[1]] = (n - 1 - k, lab)

    def __repr__(self):
        return f"SV({self.e}, {self.labels})"


class TabRef(sp.Function):
    """Symbol for one table reference on a right-hand side; args = (unique id,)."""
    nargs = 1


class ARange(sp.Function):
    """Value of an np.arange along its own axis; args = (arange id,)."""
    nargs = 1


class Boys(sp.Function):
    nargs = 2


class Table:
    def __init__(self, name, version, sizes, labels, node):
        self.name, self.version, self.sizes, self.labels, self.node = name, version, sizes, labels, node
        self.id = f"{name}#{version}"


class Idx:
    """One entry of an index tuple: kind in {'const','var','slice','unit','full'}."""

    def __init__(self, kind, value=None, lo=0, hi=0, text=""):
        self.kind, self.value, self.lo, self.hi, self.text = kind, value, lo, hi, text

    def __repr__(self):
        return self.text


class Store:
    def __init__(self, func, node, table, index, rhs, loops):
        self.func, self.node, self.table, self.index, self.rhs, self.loops = func, node, table, index, rhs, loops
        self.terms = None  # list of (ref-info, coefficient SV-expression)
        self.const = None

    @property
    def text(self):
        return ast.unparse(self.node.targets[0])


class NeedFork(Exception):
    """A data-dependent branch on scalar shell data (angular momenta ...) that no handler decides: the driver re-runs the
    kernel once per outcome (choices are keyed by function and line)."""

    def __init__(self, key, node):
        self.key, self.node = key, node


class Extractor:
    """Evaluates a kernel body; collects tables, stores and (optionally) the value of named results."""

    def __init__(self, func, env, rule="STENCIL", int_symbols=None, repo=None, shared=None):
        self.func = func
        self.env = dict(env)
        self.rule = rule
        self.repo = repo
        self.children = []  # sub-extractors for gbasis callees
        self.shared = shared if shared is not None else {"counter": itertools.count(), "aranges": {}, "tables": [], "gathers": {}}
        self.tables = {}  # name -> current Table
        self.all_tables = []
        self.stores = []
        self.refs = self.shared.setdefault("refs", {})  # ref id -> dict(table, index, labels)
        self.aranges = self.shared["aranges"]  # id -> dict(start, size)
        self.loops = []  # active (var symbol, lo, hi) stack
        self.counter = self.shared["counter"]
        self.returns = []
        self.opaque = {}
        self.int_symbols = int_symbols or {}

    # ------------------------------------------------------------------ helpers
    def err(self, msg, node):
        raise AnalysisError(self.rule, msg, self.func.where(node))

    def as_int(self, v, node):
        """python int or sympy integer expression for sizes / indices"""
        if isinstance(v, int):
            return sp.Integer(v)
        if isinstance(v, SV) and not v.labels:
            return v.e
        if isinstance(v, sp.Basic):
            return v
        self.err(f"expected an integer expression, found {v!r}", node)

    # ------------------------------------------------------------------ statements
    def run(self, stmts=None):
        try:
            for st in (self.func.node.body if stmts is None else stmts):
                self.stmt(st)
        except _Returned:
            pass
        return self

    def stmt(self, st):
        if isinstance(st, ast.Expr):
            v = st.value
            if isinstance(v, ast.Call) and isinstance(v.func, ast.Attribute) and v.func.attr in ("append", "extend") and isinstance(v.func.value, ast.Name) \
                    and isinstance(self.env.get(v.func.value.id), list):
                self.expr(v)  # building an argument list
                return
            if isinstance(v, ast.Call) and any(k.arg == "out" for k in v.keywords):
                # np.ufunc(a, b, out=view): a store through the view
                outn = [k.value for k in v.keywords if k.arg == "out"][0]
                tgt = self.view_target(outn)
                if tgt is None:
                    self.err("`out=` target is not a view of a recursion table bound in this function", st)
                call2 = ast.Call(func=v.func, args=v.args, keywords=[k for k in v.keywords if k.arg != "out"])
                syn = ast.Assign(targets=[tgt], value=call2)
                ast.copy_location(syn, st)
                ast.copy_location(call2, v)
                ast.fix_missing_locations(syn)
                self.synthetic = getattr(self, "synthetic", {})
                self.synthetic[id(syn)] = st
                self.store(syn)
                return
            return
        if isinstance(st, ast.Assign):
            if len(st.targets) == 1 and isinstance(st.targets[0], ast.Subscript):
                t0 = st.targets[0]
                if isinstance(t0.value, ast.Name) and isinstance(self.env.get(t0.value.id), dict):
                    key = self.expr(t0.slice)
                    if not isinstance(key, str):
                        self.err("dictionary item store with a non-string key", st)
                    self.env[t0.value.id][key] = self.expr(st.value)
                    return
                if isinstance(t0.value, ast.Name) and isinstance(self.env.get(t0.value.id), Slots):
                    sl_ = self.env[t0.value.id]
                    i = self.expr(t0.slice) if not isinstance(t0.slice, (ast.Tuple, ast.Slice)) else None
                    if not (isinstance(i, SV) and not i.labels and getattr(i.e, "is_Integer", False) and 0 <= int(i.e) < len(sl_.items)):
                        self.err("store into an np.empty array that is not `out[k] = block` with a constant k", st)
                    if sl_.items[int(i.e)] is not None:
                        self.err("block of an np.empty array stored twice", st)
                    sl_.items[int(i.e)] = self.expr(st.value)
                    return
                if isinstance(t0.value, ast.Name) and isinstance(self.env.get(t0.value.id), list):
                    # item store into a python list (e.g. a target shape being built)
                    i = self.expr(t0.slice)
                    if not (isinstance(i, SV) and not i.labels and getattr(i.e, "is_Integer", False)):
                        self.err("list item store with a non-constant index", st)
                    lst = self.env[t0.value.id]
                    if not -len(lst) <= int(i.e) < len(lst):
                        self.err("list index out of range", st)
                    lst[int(i.e)] = self.expr(st.value)
                    return
                self.store(st)
                return
            v = self.expr(st.value)
            for t in st.targets:
                self.bind(t, v, st)
            return
        if isinstance(st, ast.AugAssign):
            if isinstance(st.target, ast.Name) and self.view_target(st.target) is not None:
                # `view op= x` writes through to the table: the same as `table[idx] op= x`
                syn = ast.AugAssign(target=self.view_target(st.target), op=st.op, value=st.value)
                ast.copy_location(syn, st)
                ast.fix_missing_locations(syn)
                self.stmt(syn)
                return
            if isinstance(st.target, ast.Name):
                cur = self.expr(st.target)
                v = self.expr(st.value)
                self.env[st.target.id] = self.binop(st.op, cur, v, st)
                return
            if isinstance(st.target, ast.Subscript):
                # X[i] op= v  ==  X[i] = X[i] op v
                import copy
                load = copy.deepcopy(st.target)
                for n in ast.walk(load):
                    if hasattr(n, "ctx") and isinstance(n.ctx, ast.Store):
                        n.ctx = ast.Load()
                syn = ast.Assign(targets=[st.target], value=ast.BinOp(left=load, op=st.op, right=st.value))
                ast.copy_location(syn, st)
                ast.copy_location(syn.value, st)
                ast.fix_missing_locations(syn)
                self.synthetic = getattr(self, "synthetic", {})
                self.synthetic[id(syn)] = st
                self._forwarding, self._forwarded = True, None
                try:
                    self.store(syn)
                finally:
                    self._forwarding = False
                if self._forwarded is not None and self._forwarded in self.stores and self.stores[-1] is not self._forwarded:
                    # `T[idx] = a` followed by `T[idx] op= b`: one store of `a op b`
                    self.stores.remove(self._forwarded)
                return
            self.err("augmented store", st)
        if isinstance(st, ast.For):
            self.loop(st)
            return
        if isinstance(st, ast.Return):
            rv = self.expr(st.value) if st.value is not None else None
            if not getattr(self, "_in_local_helper", 0):
                self.check_early_returns(rv, st)
            self.returns.append((st, rv))
            raise _Returned()
        if isinstance(st, ast.If):
            if st.body and isinstance(st.body[-1], ast.Raise) and not st.orelse:
                return
            h = self.env.get("__if__")
            if h is not None and h(self, st):
                return
            try:
                simple = isinstance(st.test, ast.Name) or (isinstance(st.test, ast.UnaryOp) and isinstance(st.test.op, ast.Not) and isinstance(st.test.operand, ast.Name))
                tv0 = self.expr(st.test) if simple or (isinstance(st.test, ast.Compare) and isinstance(st.test.ops[0], (ast.Is, ast.IsNot))) else None
            except AnalysisError:
                tv0 = None
            if isinstance(tv0, bool):
                for s2 in (st.body if tv0 else st.orelse):
                    self.stmt(s2)
                return
            dec = self.decide_scalar_test(st.test)
            if dec is not None:
                for s2 in (st.body if dec else st.orelse):
                    self.stmt(s2)
                return
            choices = self.shared.get("choices")
            if choices is not None:
                # a scalar, data-dependent condition (e.g. a comparison of angular momenta, or a flag bound from one)
                try:
                    tv = self.expr(st.test)
                except AnalysisError:
                    tv = None
                if isinstance(tv, bool):
                    for s2 in (st.body if tv else st.orelse):
                        self.stmt(s2)
                    return
                if isinstance(tv, SV) and not tv.labels and tv.e.has(sp.Function("Indicator")):
                    key = f"{self.func.name}:{st.lineno}"
                    if key not in choices:
                        raise NeedFork(key, st)
                    self.env["__flag__" + key] = choices[key]
                    if isinstance(st.test, ast.Name):
                        self.env[st.test.id] = choices[key]  # later `if flag:` tests follow the same outcome
                    for s2 in (st.body if choices[key] else st.orelse):
                        self.stmt(s2)
                    return
            if self.select_branch(st):
                return
            if self.early_return(st):
                return
            if self.skippable_scaling(st):
                return
            self.err("branch inside a recursion kernel", st)
        if isinstance(st, (ast.Pass, ast.Raise)):
            return
        if isinstance(st, ast.FunctionDef) and not st.decorator_list:
            # a local helper (closure over the locals of this call): interpreted in place at each call
            fdef = st

            def closure(ex, call, fdef=fdef):
                a_ = fdef.args
                if a_.vararg or a_.kwarg or a_.kwonlyargs or a_.posonlyargs:
                    ex.err("local helper with */** parameters", call)
                params = [x.arg for x in a_.args]
                vals = [ex.expr(x) for x in call.args]
                bound = dict(zip(params, vals))
                for k in call.keywords:
                    if k.arg is None:
                        ex.err("**kwargs in a call of a local helper", call)
                    bound[k.arg] = ex.expr(k.value)
                defaults = dict(zip(params[len(params) - len(a_.defaults):], a_.defaults))
                for p_ in params:
                    if p_ not in bound:
                        if p_ not in defaults:
                            ex.err(f"local helper {fdef.name} called without `{p_}`", call)
                        bound[p_] = ex.expr(defaults[p_])
                saved_env, saved_ret = ex.env, ex.returns
                ex._in_local_helper = getattr(ex, "_in_local_helper", 0) + 1
                ex.env = dict(saved_env)
                ex.env.update(bound)
                ex.returns = []
                try:
                    try:
                        for s2 in fdef.body:
                            ex.stmt(s2)
                    except _Returned:
                        pass
                    rv = ex.returns[-1][1] if ex.returns else None
                finally:
                    ex.env, ex.returns = saved_env, saved_ret
                    ex._in_local_helper -= 1
                return rv
            self.env[st.name] = closure
            return
        self.err(f"statement {type(st).__name__}", st)

    def skippable_scaling(self, st):
        """`if np.any(A > k): X *= f(A)` - the scaling is skipped when no entry of the integer array A exceeds k.  Exact iff f is 1
        whenever every entry of A is in 0..k: decided by substituting all such values (double factorials of arguments <= 1 are 1).
        The body is then analysed as always taken."""
        t = st.test
        if st.orelse:
            return False
        cmp_ = None
        if isinstance(t, ast.Call) and dotted(t.func) in ("np.any", "numpy.any") and len(t.args) == 1:
            cmp_ = t.args[0]
        elif isinstance(t, ast.Call) and isinstance(t.func, ast.Attribute) and t.func.attr == "any" and not t.args:
            cmp_ = t.func.value
        if not (isinstance(cmp_, ast.Compare) and len(cmp_.ops) == 1 and isinstance(cmp_.ops[0], (ast.Gt, ast.GtE)) and isinstance(cmp_.comparators[0], ast.Constant)
                and isinstance(cmp_.comparators[0].value, int)):
            return False
        kmax = cmp_.comparators[0].value - (1 if isinstance(cmp_.ops[0], ast.GtE) else 0)
        if not 0 <= kmax <= 2:
            return False
        for x in st.body:
            if not (isinstance(x, ast.Assign) and all(isinstance(tg, ast.Name) for tg in x.targets)) and \
                    not (isinstance(x, ast.AugAssign) and isinstance(x.op, ast.Mult) and isinstance(x.target, ast.Name)):
                return False
        try:
            A_ = self.expr(cmp_.left)
        except AnalysisError:
            return False
        if not isinstance(A_, SV) or not isinstance(A_.e, sp.Function) or not A_.e.args:
            return False
        head = A_.e.func
        saved_env = dict(self.env)
        for x in st.body:
            if isinstance(x, ast.AugAssign):
                try:
                    v = self.expr(x.value)
                except AnalysisError:
                    self.env = saved_env
                    return False
                atoms = sorted({a for a in v.e.atoms(sp.Function) if a.func == head}, key=str)
                if not atoms or len(atoms) > 4:
                    self.env = saved_env
                    return False
                import itertools as _it
                for vals in _it.product(range(kmax + 1), repeat=len(atoms)):
                    w = v.e.subs(dict(zip(atoms, vals)))
                    w = w.replace(lambda z: getattr(z, "func", None) == sp.Function("F2") and z.args[0].is_number,
                                  lambda z: sp.Integer(1) if z.args[0] <= 1 else sp.factorial2(z.args[0]))
                    if sp.simplify(w - 1) != 0:
                        raise KernelDefect(f"`{ast.unparse(x)[:60]}` is skipped unless `{ast.unparse(t)[:50]}`, but the factor is {sp.simplify(w)} (not 1) "
                                           f"for {dict(zip([str(a_) for a_ in atoms], vals))}", st)
            self.stmt(x)
        self.shared.setdefault("exact_skips", []).append((self.func, st))
        return True

    def view_target(self, node):
        """For a name bound to a basic-slicing view of a recursion table: the subscript expression it was taken with (store context)"""
        if not isinstance(node, ast.Name):
            return None
        v = self.env.get(node.id)
        rid = getattr(v, "table_ref", None)
        if rid is None or rid not in self.refs:
            return None
        src = self.refs[rid]["node"]
        if not isinstance(src, ast.Subscript):
            return None
        self.refs[rid]["view_only"] = True  # taken as a place to write to, not as a value
        import copy
        t = copy.deepcopy(src)
        t.ctx = ast.Store()
        return t

    def early_return(self, st):
        """`if n == const: return table` on an undecided scalar: the analysis goes on with the general path; at the function's real
        return the early one is checked to be the same - every store after this point must fall outside the table when n == const
        (then the general path returns the very same table)."""
        t = st.test
        if not (len(st.body) == 1 and isinstance(st.body[0], ast.Return) and not st.orelse and isinstance(t, ast.Compare) and len(t.ops) == 1
                and isinstance(t.ops[0], ast.Eq)):
            return False
        try:
            l, r = self.expr(t.left), self.expr(t.comparators[0])
            v = self.expr(st.body[0].value)
        except AnalysisError:
            return False
        if not (isinstance(l, SV) and isinstance(r, SV) and not l.labels and not r.labels and r.e.is_number and not l.e.is_number):
            return False
        if getattr(v, "table", None) is None:
            return False
        self.pending_early = getattr(self, "pending_early", [])
        self.pending_early.append(dict(node=st, sym=l.e, const=r.e, n_stores=len(self.stores), table=v.table))
        return True

    def check_early_returns(self, ret_value, node):
        for pe in getattr(self, "pending_early", []):
            if getattr(ret_value, "table", None) is not pe["table"]:
                self.err("an early return hands back the recursion table but the function's final return does not", pe["node"])
            sub = {pe["sym"]: pe["const"]}
            tab = pe["table"]
            sized = type("T", (), {"sizes": [sz.subs(sub) if sz is not None else None for sz in tab.sizes], "labels": tab.labels})()
            for s_ in self.stores[pe["n_stores"]:]:
                if s_.table is not tab:
                    continue
                probe = Store(s_.func, s_.node, s_.table, s_.index, s_.rhs, [(v_, lo.subs(sub), hi.subs(sub)) for v_, lo, hi in s_.loops])
                if not store_outside_table(probe, sized):
                    raise KernelDefect(f"the early return under `{ast.unparse(pe['node'].test)}` skips the store `{s_.text[:60]}`, which the general path "
                                        f"performs for that case too: the returned table differs", pe["node"])
            self.shared.setdefault("verified_early_returns", []).append((self.func, pe["node"]))

    def select_branch(self, st):
        """An undecided `if` whose branches only bind names (no store, return, loop): both are evaluated and every name bound
        differently becomes an opaque choice Phi(a, b) with the common axes.  Such a value is fine wherever it is never looked at (a
        store this caller does not reach); anywhere else it is not the specified coefficient and is reported as such."""
        def pure(stmts):
            for x in stmts:
                if isinstance(x, ast.Assign) and all(isinstance(t, ast.Name) for t in x.targets):
                    continue
                if isinstance(x, ast.If) and pure(x.body) and pure(x.orelse):
                    continue
                if isinstance(x, ast.Pass):
                    continue
                return False
            return True
        if not (pure(st.body) and pure(st.orelse)):
            return False
        env0 = dict(self.env)
        try:
            for x in st.body:
                self.stmt(x)
            env1 = self.env
            self.env = dict(env0)
            for x in st.orelse:
                self.stmt(x)
            env2 = self.env
        except AnalysisError:
            self.env = env0
            return False
        merged = dict(env0)
        # an exact test `np.array_equal(x, y)` / `np.all(x == y)`: on the taken branch x and y are the same numbers
        eq = None
        t = st.test
        pair = None
        if isinstance(t, ast.Call) and dotted(t.func) in ("np.array_equal", "numpy.array_equal") and len(t.args) == 2:
            pair = t.args
        elif isinstance(t, ast.Call) and ((dotted(t.func) in ("np.all", "numpy.all", "all") and len(t.args) == 1) or
                                          (isinstance(t.func, ast.Attribute) and t.func.attr == "all" and not t.args)):
            inner = t.args[0] if t.args else t.func.value
            if isinstance(inner, ast.Compare) and len(inner.ops) == 1 and isinstance(inner.ops[0], ast.Eq):
                pair = [inner.left, inner.comparators[0]]
        if pair is not None:
            try:
                xv, yv = self.expr(pair[0]), self.expr(pair[1])
                if isinstance(xv, SV) and isinstance(yv, SV):
                    eq = (xv.e, yv.e)
            except AnalysisError:
                eq = None
        for k in set(env1) | set(env2):
            a, b = env1.get(k), env2.get(k)
            if a is b:
                merged[k] = a
                continue
            if k.startswith("__flag__"):
                merged[k] = a if a is not None else b  # bookkeeping of a fork decided inside one branch
                continue
            if eq is not None and isinstance(a, SV) and isinstance(b, SV) and a.labels is not None and b.labels is not None \
                    and [l.window() for l in a.labels] == [l.window() for l in b.labels]:
                try:
                    same = sp.simplify((a.e - b.e).subs(eq[0], eq[1])) == 0 or sp.simplify((a.e - b.e).subs(eq[1], eq[0])) == 0
                except Exception:
                    same = False
                if same:
                    merged[k] = b  # the special-case value equals the general formula whenever the branch is taken
                    continue
            if isinstance(a, SV) and isinstance(b, SV) and a.labels is not None and b.labels is not None \
                    and [l.window() for l in a.labels] == [l.window() for l in b.labels]:
                if sp.simplify(a.e - b.e) == 0:
                    merged[k] = a
                else:
                    out = SV(sp.Function("Phi")(sp.Integer(next(self.counter)), a.e, b.e), a.labels)
                    out.ar.update(a.ar)
                    out.ar.update(b.ar)
                    merged[k] = out
                continue
            self.env = env0
            return False
        self.env = merged
        return True

    def decide_scalar_test(self, test):
        """`i > 0` on loop variables / constants: True / False when the comparison has the same outcome for every value the loop
        variables take here (lower bounds of the enclosing loops), else None."""
        if not (isinstance(test, ast.Compare) and len(test.ops) == 1 and isinstance(test.ops[0], (ast.Lt, ast.LtE, ast.Gt, ast.GtE, ast.Eq, ast.NotEq))):
            return None
        names = {n.id for n in ast.walk(test) if isinstance(n, ast.Name)}
        loopvars = {str(v) for v, _l, _h in self.loops}
        if not all(nm in loopvars or (isinstance(self.env.get(nm), SV) and not self.env[nm].labels and self.env[nm].e.is_number) for nm in names):
            return None
        try:
            l, r = self.expr(test.left), self.expr(test.comparators[0])
        except AnalysisError:
            return None
        if not (isinstance(l, SV) and isinstance(r, SV) and not l.labels and not r.labels):
            return None
        d = l.e - r.e
        for n, (v, lo, _hi) in enumerate(self.loops):
            if not getattr(lo, "is_Integer", False) and d.has(v):
                return None
            d = d.subs(v, lo + sp.Symbol(f"_t{n}", integer=True, nonnegative=True))
        d = sp.expand(d)
        op = type(test.ops[0])
        table = {ast.Gt: (d.is_positive, d.is_nonpositive), ast.GtE: (d.is_nonnegative, d.is_negative), ast.Lt: (d.is_negative, d.is_nonnegative),
                 ast.LtE: (d.is_nonpositive, d.is_positive), ast.Eq: (d.is_zero, d.is_nonzero), ast.NotEq: (d.is_nonzero, d.is_zero)}[op]
        if table[0]:
            return True
        if table[1]:
            return False
        return None

    def loop_split_point(self, st, lo):
        """Smallest s such that every `if <loop variable> <op> <constant>` in the body has one outcome for all values >= s."""
        var = st.target.id
        s = None
        for n in ast.walk(st):
            if isinstance(n, (ast.If, ast.IfExp)) and isinstance(n.test, ast.Compare) and len(n.test.ops) == 1:
                a, b, op = n.test.left, n.test.comparators[0], type(n.test.ops[0])
                if isinstance(b, ast.Name) and b.id == var and isinstance(a, ast.Constant):
                    a, b = b, a
                    op = {ast.Lt: ast.Gt, ast.Gt: ast.Lt, ast.LtE: ast.GtE, ast.GtE: ast.LtE}.get(op, op)
                if isinstance(a, ast.Name) and a.id == var and isinstance(b, ast.Constant) and isinstance(b.value, int) and not isinstance(b.value, bool):
                    c0 = b.value
                    pt = {ast.Gt: c0 + 1, ast.GtE: c0, ast.Eq: c0 + 1, ast.NotEq: c0 + 1, ast.Lt: c0, ast.LtE: c0 + 1}.get(op)
                    if pt is not None:
                        s = pt if s is None else max(s, pt)
        return s

    def bind(self, t, v, st):
        if isinstance(t, ast.Name):
            self.env[t.id] = v
            # a new table?
            if isinstance(st.value, ast.Call) and dotted(st.value.func) in ("np.zeros", "numpy.zeros") and isinstance(v, SV) and getattr(v, "table", None):
                tab = v.table
                tab.name = t.id
                tab.version = len([x for x in self.all_tables if x.name == t.id])
                nsame = len([x for x in self.shared["tables"] if x.id.split("@")[0] == f"{self.func.name}.{t.id}#{tab.version}"])
                tab.id = f"{self.func.name}.{t.id}#{tab.version}" + (f"@{nsame}" if nsame else "")
                tab.owner = self
                for k, lab in enumerate(tab.labels):
                    if isinstance(lab.base, tuple) and lab.base[0] == "tab":
                        lab.base = ("tab", tab.id, k)
                self.tables[t.id] = tab
                self.all_tables.append(tab)
                self.shared["tables"].append(tab)
            elif t.id in self.tables and not (isinstance(v, SV) and getattr(v, "table", None) is self.tables[t.id]):
                # the name now holds something else (e.g. a transposed / sliced copy): no longer a recursion table
                del self.tables[t.id]
            return
        if isinstance(t, ast.Tuple) and isinstance(v, SV) and v.labels and v.labels[0].base == "xyz" and len(t.elts) == 3:
            # unpacking along the Cartesian-component axis: x, y, z parts
            for k, tt in enumerate(t.elts):
                self.bind(tt, SV(v.e.subs(c, k), v.labels[1:]), st)
            return
        if isinstance(t, ast.Tuple) and isinstance(v, (tuple, list)) and len(v) == len(t.elts):
            for tt, vv in zip(t.elts, v):
                self.bind(tt, vv, st)
            return
        if isinstance(t, ast.Tuple) and isinstance(v, SV) and v.labels and isinstance(v.labels[0].base, tuple) and v.labels[0].base[0] == "ordrow":
            # unpacking along the rows of a literal order table: one array per requested order vector
            rows = self.shared["order_tables"][v.labels[0].base[1]]
            if len(rows) == len(t.elts):
                for k, tt in enumerate(t.elts):
                    elem = SV(v.e.subs(sp.Symbol("row"), k), v.labels[1:], v.ar)
                    elem.row_origin = (v.labels[0], k, v.e)  # row k of this row-indexed array (np.stack can put the rows back)
                    self.bind(tt, elem, st)
                return
        self.err("assignment target", st)

    def loop(self, st):
        it = st.iter
        if not (isinstance(it, ast.Call) and dotted(it.func) == "range" and isinstance(st.target, ast.Name) and not st.orelse):
            # a loop over a literal / already evaluated python sequence (of shells, names, small integers): unrolled
            seq = None
            if not st.orelse:
                try:
                    seq = self.expr(it)
                except AnalysisError:
                    seq = None
            if isinstance(seq, (tuple, list)):
                for item in list(seq):
                    self.bind(st.target, item, ast.Assign(targets=[st.target], value=ast.Constant(value=None)))
                    for s in st.body:
                        self.stmt(s)
                return
            self.err("loop that is not `for v in range(...)`", st)
        args = [self.as_int(self.expr(a), st) for a in it.args]
        if args and all(getattr(a, "is_Integer", False) for a in args) and len(list(range(*[int(a) for a in args]))) <= 8:
            # a loop over a fixed handful of values (Cartesian directions, the four shells): unrolled, the variable is a number
            for k in range(*[int(a) for a in args]):
                self.env[st.target.id] = SV(sp.Integer(k), [])
                for s in st.body:
                    self.stmt(s)
            return
        lo, hi = (sp.Integer(0), args[0]) if len(args) == 1 else (args[0], args[1])
        if len(args) == 3:
            self.err("range with a step", st)
        split = self.loop_split_point(st, lo)
        if split is not None and getattr(lo, "is_Integer", False) and 0 < split - int(lo) <= 3:
            # the first iterations take a different branch (`if i > 0:`): they are run one by one, the rest symbolically
            for k in range(int(lo), split):
                self.env[st.target.id] = SV(sp.Integer(k), [])
                # this iteration exists only if the loop reaches it: recorded as a loop over [k, min(hi, k + 1)) of a variable nothing uses
                self.loops.append((sp.Symbol("__once", integer=True), sp.Integer(k), sp.Min(hi, k + 1)))
                self.shared.setdefault("loop_ids", []).append(next(self.counter))
                try:
                    for s in st.body:
                        self.stmt(s)
                finally:
                    self.loops.pop()
                    self.shared["loop_ids"].pop()
            lo = sp.Integer(split)
        v = sp.Symbol(st.target.id, integer=True)
        self.loops.append((v, lo, hi))
        self.shared.setdefault("loop_ids", []).append(next(self.counter))  # one id per dynamic instance of a symbolic loop
        self.env[st.target.id] = SV(v, [])
        try:
            for s in st.body:
                self.stmt(s)
        finally:
            self.loops.pop()
            self.shared["loop_ids"].pop()

    # ------------------------------------------------------------------ table stores
    def index_of(self, table, sl, node):
        elts = list(sl.elts) if isinstance(sl, ast.Tuple) else [sl]
        out = []
        for e in elts:
            out.append(self.index_entry(e, node))
        if len(out) > len(table.labels):
            self.err("too many indices for the table", node)
        while len(out) < len(table.labels):
            out.append(Idx("full", text=":"))
        return out

    def index_entry(self, e, node):
        text = ast.unparse(e)
        if isinstance(e, ast.Slice):
            if e.step is not None:
                self.err("slice with a step in a recursion index", node)
            lo = self.as_int(self.expr(e.lower), node) if e.lower is not None else sp.Integer(0)
            if e.upper is None:
                return Idx("slice" if lo != 0 else "full", lo=lo, hi=0, text=text)
            up = self.as_int(self.expr(e.upper), node)
            if up.is_number and up < 0:
                return Idx("slice", lo=lo, hi=-up, text=text)
            if sp.simplify(up - lo - 1) == 0:
                return Idx("unit", value=lo, text=text)
            # `: n` from the start: keep as an upper-bounded slice
            return Idx("upto", lo=lo, value=up, text=text)
        v = self.expr(e)
        if isinstance(v, SV) and not v.labels:
            ee = v.e
            if ee.is_number:
                return Idx("const", value=ee, text=text)
            return Idx("var", value=ee, text=text)
        if isinstance(v, int):
            return Idx("const", value=sp.Integer(v), text=text)
        self.err(f"index `{text}` is neither a constant, a loop expression nor a slice", node)

    def labels_after_index(self, table, index):
        labs = []
        for lab, ix in zip(table.labels, index):
            if ix.kind in ("const", "var"):
                continue
            if ix.kind == "full":
                labs.append(Lab(lab.base))
            elif ix.kind == "slice":
                labs.append(Lab(lab.base, ix.lo, ix.hi))
            elif ix.kind == "unit":
                labs.append(Lab(lab.base, ix.value, 0, unit=True))
            elif ix.kind == "upto":
                labs.append(Lab(lab.base, ix.lo, ("upto", ix.value)))
        return labs

    def flush_store(self, st):
        """`x[x < tiny] = 0` (also with abs) on an intermediate array of a kernel: entries below a positive threshold are replaced by
        zero.  The quantities built from it are products with polynomial factors that can be large (high angular momentum, a distant
        moment origin, 1/(2p) for diffuse primitives), so a flushed factor makes integrals exactly zero whose value is not small: a
        definite defect of the formula.  A threshold of exactly 0 on a value that is an exponential is a no-op and is skipped."""
        t = st.targets[0]
        if not (isinstance(t.value, ast.Name) and isinstance(self.env.get(t.value.id), SV) and isinstance(t.slice, ast.Compare)
                and len(t.slice.ops) == 1 and isinstance(t.slice.ops[0], (ast.Lt, ast.LtE))
                and isinstance(st.value, ast.Constant) and st.value.value in (0, 0.0)):
            return
        left = t.slice.left
        if isinstance(left, ast.Call) and (dotted(left.func) or "").split(".")[-1] in ("abs", "absolute", "fabs") and len(left.args) == 1:
            left = left.args[0]
        if not (isinstance(left, ast.Name) and left.id == t.value.id):
            return
        thr = t.slice.comparators[0]
        txt = ast.unparse(thr)
        positive = None
        if isinstance(thr, ast.Constant) and isinstance(thr.value, (int, float)):
            positive = thr.value > 0
            if 0 < thr.value <= 1e-100:
                raise _NoOpStore()  # a flush of (sub)denormal magnitudes: below anything the polynomial factors (<< 1e100) can lift to 1e-8
        elif "finfo" in txt and txt.split(".")[-1] in ("tiny", "smallest_normal"):
            raise _NoOpStore()  # 2.2e-308: same
        elif "finfo" in txt and txt.split(".")[-1] in ("eps", "resolution"):
            positive = True
        if positive is None:
            return
        if not positive:
            cur = self.env[t.value.id]
            if isinstance(thr, ast.Constant) and thr.value == 0 and isinstance(cur.e, sp.exp) and isinstance(t.slice.ops[0], ast.Lt):
                raise _NoOpStore()
            return
        raise ValueDefect(f"entries of `{t.value.id}` below {txt} are replaced by 0 (`{ast.unparse(st)[:80]}`): everything the recursion builds from "
                           f"them is then exactly zero, although those integrals are the flushed factor times polynomial factors that need not "
                           f"be small (high angular momenta, a distant moment origin, diffuse primitives)", st)

    def store(self, st):
        t = st.targets[0]
        if isinstance(t.value, ast.Name) and t.value.id not in self.tables and self.view_target(t.value) is not None:
            # `view[...] = value` / `view[:] = value` with `view = T[idx]`: a store into T at idx
            sl = t.slice
            elts = sl.elts if isinstance(sl, ast.Tuple) else [sl]
            whole = all((isinstance(z, ast.Constant) and z.value is Ellipsis) or
                        (isinstance(z, ast.Slice) and z.lower is None and z.upper is None and z.step is None) for z in elts)
            if not whole:
                self.err(f"partial store through the view `{t.value.id}` of a recursion table", st)
            syn = ast.Assign(targets=[self.view_target(t.value)], value=st.value)
            ast.copy_location(syn, st)
            ast.fix_missing_locations(syn)
            self.synthetic = getattr(self, "synthetic", {})
            self.synthetic[id(syn)] = st
            return self.store(syn)
        if not (isinstance(t.value, ast.Name) and t.value.id in self.tables):
            try:
                self.flush_store(st)
            except _NoOpStore:
                return
            # store into something that is not a recursion table (e.g. masked store): opaque
            self.err(f"store into `{ast.unparse(t.value)}` which is not a recursion table", st)
        table = self.tables[t.value.id]
        index = self.index_of(table, self.materialise_slice(t.slice), st)
        try:
            rhs = self.expr(st.value)
        except LabelMismatch as lm:
            # a window of length one set against a longer window: numpy broadcasts it without complaint, so the statement still runs;
            # if the table requested by this caller does not reach the target (empty slice / empty loop) nothing depends on the value
            if getattr(lm, "soft", False) and store_outside_table(Store(self.func, st, table, index, None, list(self.loops)), table):
                self.shared.setdefault("dead_stores", []).append((self.func, st, lm.msg))
                return
            raise
        s = Store(self.func, st, table, index, rhs, list(self.loops))
        s.target_labels = self.labels_after_index(table, index)
        s.seq = next(self.counter)  # program order among stores, table loads and gathers (one shared counter)
        s.loop_ids = list(self.shared.setdefault("loop_ids", []))
        self.stores.append(s)

    # ------------------------------------------------------------------ expressions
    def expr(self, e):
        if e is None:
            return None
        if isinstance(e, ast.IfExp):
            # `a if flag else b` with a flag that is decided on this path (a constant, or the outcome of a forked scalar branch)
            tv = self.expr(e.test)
            if isinstance(tv, bool):
                return self.expr(e.body if tv else e.orelse)
            if isinstance(tv, SV) and not tv.labels and tv.e.has(sp.Function("Indicator")) and self.shared.get("choices") is not None:
                key = f"{self.func.name}:{e.lineno}"
                if key not in self.shared["choices"]:
                    raise NeedFork(key, e)
                return self.expr(e.body if self.shared["choices"][key] else e.orelse)
            self.err("conditional expression on a value that is not decided on this path", e)
        if isinstance(e, ast.Constant):
            v = e.value
            if isinstance(v, bool) or v is None:
                return v
            if isinstance(v, int):
                return SV(sp.Integer(v), [])
            if isinstance(v, float):
                return SV(sp.nsimplify(v, rational=True), [])
            if isinstance(v, complex):
                return SV(sp.nsimplify(v.real, rational=True) + sp.I * sp.nsimplify(v.imag, rational=True), [])
            return v
        if isinstance(e, ast.Name):
            if e.id in self.env:
                v = self.env[e.id]
                if isinstance(v, Slots):
                    if any(x is None for x in v.items):
                        self.err(f"`{e.id}` (np.empty) is read before every block `{e.id}[k]` is stored", e)
                    fake = ast.Call(func=ast.Attribute(value=ast.Name(id="np", ctx=ast.Load()), attr="array", ctx=ast.Load()),
                                    args=[ast.Name(id="__slots_" + e.id, ctx=ast.Load())], keywords=[])
                    ast.copy_location(fake, v.node)
                    ast.fix_missing_locations(fake)
                    self.env["__slots_" + e.id] = list(v.items)
                    v = self.numpy("array", fake)
                    self.env[e.id] = v
                return v
            g = self.func.module.globals.get(e.id)
            if isinstance(g, ast.Constant) and isinstance(g.value, (int, float)) and not isinstance(g.value, bool):
                return self.expr(g)  # module-level numeric constant
            self.err(f"name `{e.id}` has no symbolic value", e)
        if isinstance(e, ast.UnaryOp):
            v = self.expr(e.operand)
            if isinstance(e.op, ast.USub):
                out_ = SV(-v.e, v.labels, v.ar)
                if getattr(v, "row_origin", None) is not None:
                    out_.row_origin = (v.row_origin[0], v.row_origin[1], -v.row_origin[2])
                return out_
            if isinstance(e.op, ast.UAdd):
                return v
            if isinstance(e.op, ast.Not) and isinstance(v, SV) and not v.labels:
                return SV(sp.Function("Indicator")(sp.Symbol("Not"), v.e, sp.Integer(0)), [])
            if isinstance(e.op, ast.Not) and isinstance(v, bool):
                return not v
            self.err("unary operator", e)
        if isinstance(e, ast.BinOp):
            return self.binop(e.op, self.expr(e.left), self.expr(e.right), e)
        if isinstance(e, ast.BoolOp):
            vals = [self.expr(v) for v in e.values]
            if all(isinstance(v, SV) and not v.labels for v in vals):
                return SV(sp.Function("Indicator")(sp.Symbol(type(e.op).__name__), sp.Function("Tup")(*[v.e for v in vals]), sp.Integer(0)), [])
            if all(isinstance(v, bool) for v in vals):
                return all(vals) if isinstance(e.op, ast.And) else any(vals)
        if isinstance(e, ast.Tuple):
            return tuple(self.expr(x) for x in e.elts)
        if isinstance(e, ast.List):
            return [self.expr(x) for x in e.elts]
        if isinstance(e, ast.Dict) and all(k is not None for k in e.keys):
            keys = [self.expr(k) for k in e.keys]
            if not all(isinstance(k, str) for k in keys):
                self.err("dictionary with non-string keys", e)
            return dict(zip(keys, [self.expr(v) for v in e.values]))
        if isinstance(e, (ast.ListComp, ast.GeneratorExp)) and len(e.generators) == 1 and not e.generators[0].ifs:
            # comprehension over a literal / constant iterable: unrolled
            g = e.generators[0]
            try:
                items = ast.literal_eval(g.iter)
            except Exception:
                items = None
            if items is None and isinstance(g.iter, ast.Call) and dotted(g.iter.func) == "range":
                try:
                    items = list(range(*[ast.literal_eval(a) for a in g.iter.args]))
                except Exception:
                    items = None
            if items is None:
                self.err("comprehension over a non-literal iterable", e)
            out = []
            saved = dict(self.env)
            for item in items:
                def conv(z):
                    return tuple(conv(y) for y in z) if isinstance(z, (tuple, list)) else SV(sp.Integer(z), []) if isinstance(z, int) else z
                self.bind(g.target, conv(item), ast.Assign(targets=[g.target], value=ast.Constant(value=None)))
                out.append(self.expr(e.elt))
            self.env = saved
            return out
        if isinstance(e, ast.Compare) and len(e.ops) == 1 and isinstance(e.ops[0], (ast.Is, ast.IsNot)) and isinstance(e.comparators[0], ast.Constant) \
                and e.comparators[0].value is None:
            v = self.expr(e.left)
            return (v is None) if isinstance(e.ops[0], ast.Is) else (v is not None)
        if isinstance(e, ast.Compare) and len(e.ops) == 1 and isinstance(e.ops[0], (ast.Lt, ast.LtE, ast.Gt, ast.GtE, ast.Eq, ast.NotEq)):
            # elementwise comparison of arrays: a 0/1 indicator (it takes part in arithmetic as such)
            l, r = self.expr(e.left), self.expr(e.comparators[0])
            if isinstance(l, SV) and isinstance(r, SV):
                rel = {ast.Lt: sp.Lt, ast.LtE: sp.Le, ast.Gt: sp.Gt, ast.GtE: sp.Ge, ast.Eq: sp.Eq, ast.NotEq: sp.Ne}[type(e.ops[0])]
                labels = self.broadcast(l, r, e)
                a, b = sp.Symbol("cmp_l", real=True), sp.Symbol("cmp_r", real=True)
                ind = sp.Function("Indicator")(sp.Symbol(type(e.ops[0]).__name__), l.e, r.e)
                return SV(ind, labels)
        if isinstance(e, ast.Subscript):
            return self.subscript(e)
        if isinstance(e, ast.Attribute):
            return self.attribute(e)
        if isinstance(e, ast.Call):
            return self.call(e)
        self.err(f"expression {type(e).__name__}", e)

    def broadcast(self, a, b, node):
        la, lb = a.labels, b.labels
        if la is None or lb is None:
            return None
        n = max(len(la), len(lb))
        la = [ONE] * (n - len(la)) + list(la)
        lb = [ONE] * (n - len(lb)) + list(lb)
        out = []
        for x, y in zip(la, lb):
            if x.is_one():
                out.append(y)
            elif y.is_one():
                out.append(x)
            else:
                if x.base != y.base and not (self.compatible(x, y)):
                    lm = LabelMismatch(f"`{ast.unparse(node)[:90]}` aligns axis {x} with axis {y}", node, (x.base, y.base))
                    lm.soft = bool(x.unit or y.unit)
                    raise lm
                out.append(x)
        return out

    def compatible(self, x, y):
        """Different bases that are nevertheless the same length by construction (an arange built for a table axis)."""
        sx, sy = self.size_of(x), self.size_of(y)
        if sx is None or sy is None:
            return False
        return sp.simplify(sx - sy) == 0

    def size_of(self, lab):
        if lab.is_one():
            return sp.Integer(1)
        if lab.unit:
            return sp.Integer(1)
        base = lab.base
        size = None
        if isinstance(base, tuple) and base[0] == "tab":
            for t in self.shared["tables"]:
                if t.id == base[1]:
                    size = t.sizes[base[2]]
        elif isinstance(base, tuple) and base[0] == "ar":
            size = self.aranges[base[1]]["size"]
        elif isinstance(base, tuple) and base[0] == "dim":
            size = sp.Symbol("n_" + "_".join(str(x) for x in base[1:]), integer=True, positive=True)
        elif base == "xyz":
            size = sp.Integer(3)
        if size is None:
            return None
        if isinstance(lab.hi, tuple):
            return lab.hi[1] - lab.lo
        return size - lab.lo - lab.hi

    def binop(self, op, l, r, node):
        if isinstance(l, tuple) and isinstance(r, tuple) and isinstance(op, ast.Add):
            return l + r
        if isinstance(l, str) and isinstance(r, str) and isinstance(op, ast.Add):
            return l + r
        if isinstance(l, list) and isinstance(r, list) and isinstance(op, ast.Add):
            return l + r
        if isinstance(op, ast.Mult):
            for seq, n in ((l, r), (r, l)):
                if isinstance(seq, (tuple, list)) and isinstance(n, SV) and not n.labels and getattr(n.e, "is_Integer", False):
                    return seq * int(n.e)  # python sequence repetition
        if not isinstance(l, SV) or not isinstance(r, SV):
            self.err(f"operator on {type(l).__name__}, {type(r).__name__}", node)
        labels = self.broadcast(l, r, node)
        a, b = l.e, r.e
        if isinstance(op, ast.Add):
            v = a + b
        elif isinstance(op, ast.Sub):
            v = a - b
        elif isinstance(op, ast.Mult):
            v = a * b
        elif isinstance(op, ast.Div):
            v = a / b
        elif isinstance(op, ast.Pow):
            v = a ** b
        elif isinstance(op, ast.FloorDiv):
            v = sp.floor(a / b)
        else:
            self.err("operator", node)
        ar = dict(l.ar)
        ar.update(r.ar)
        out = SV(v, labels)
        if isinstance(op, (ast.Mult, ast.Div)):
            for x_, y_, left in ((l, r, True), (r, l, False)):
                ro = getattr(x_, "row_origin", None)
                if ro is not None and not y_.labels and not y_.e.has(sp.Symbol("row")) and (left or isinstance(op, ast.Mult)):
                    gen = ro[2] * y_.e if isinstance(op, ast.Mult) else ro[2] / y_.e
                    out.row_origin = (ro[0], ro[1], gen)
        for k2, v2 in ar.items():
            out.ar.setdefault(k2, v2)
        views = [getattr(z, "table_view", None) or ((z.table, list(range(len(z.labels)))) if getattr(z, "table", None) is not None and z.labels is not None else None)
                 for z in (l, r)]
        views = [w for w in views if w is not None]
        if len(views) == 1 and isinstance(op, (ast.Mult, ast.Div)) and labels is not None and len(labels) == len(views[0][1]):
            out.table_view = views[0]
        return out

    def attribute(self, e):
        d = dotted(e)
        if d in ("np.pi", "numpy.pi"):
            return SV(sp.pi, [])
        if d in ("np.newaxis",):
            return None
        base = self.expr(e.value)
        if isinstance(base, (ShellSym, ClsSym)):
            return base.attr(e.attr, self, e)
        if isinstance(base, SV):
            if e.attr == "T":
                if base.labels is None:
                    return base
                return SV(base.e, list(reversed(base.labels)))
            if e.attr == "size":
                if base.labels is not None and len(base.labels) >= 1:
                    non1 = [l for l in base.labels if not l.is_one()]
                    if len(non1) == 1:
                        s = self.size_of(non1[0])
                        if s is not None:
                            out = SV(s, [])
                            out.from_lab = non1[0]
                            return out
                self.err(".size of this value", e)
            if e.attr == "ndim":
                if base.labels is None:
                    self.err(".ndim of a value of unknown rank", e)
                return SV(sp.Integer(len(base.labels)), [])
            if e.attr == "shape":
                if base.labels is None:
                    self.err(".shape of a value of unknown rank", e)
                return ShapeTuple([self.size_of(l) for l in base.labels], base.labels)
        self.err(f"attribute `{ast.unparse(e)}`", e)

    def materialise_slice(self, sl):
        """An index computed at run time (`recursed + (b,) + rest`, `slice(None, -1)`) as the equivalent literal subscript: slices and
        None become syntax, every other entry a temporary name bound to the computed value."""
        if isinstance(sl, ast.Tuple):
            # an entry that is a name bound to a slice object (`upper = slice(1, None)`; `T[0, j, upper]`) becomes that slice
            changed = False
            elts = []
            for x in sl.elts:
                if isinstance(x, ast.Name) and isinstance(self.env.get(x.id), slice):
                    y = self.materialise_slice(x)
                    changed = changed or (y is not x)
                    elts.append(y)
                else:
                    elts.append(x)
            if changed:
                node = ast.Tuple(elts=elts, ctx=ast.Load())
                ast.copy_location(node, sl)
                ast.fix_missing_locations(node)
                return node
            return sl
        if isinstance(sl, (ast.Slice, ast.Constant)):
            return sl
        if not isinstance(sl, (ast.Name, ast.BinOp, ast.Call)):
            return sl
        try:
            v = self.expr(sl)
        except AnalysisError:
            return sl
        if not (isinstance(v, (tuple, slice)) and (isinstance(v, slice) or any(isinstance(x, slice) or x is None for x in v) or isinstance(sl, ast.BinOp))):
            return sl

        def piece(x):
            if x is None:
                return None
            nm = f"__ix{next(self.counter)}"
            self.env[nm] = x if isinstance(x, SV) else SV(sp.Integer(x), []) if isinstance(x, int) and not isinstance(x, bool) else x
            return ast.Name(id=nm, ctx=ast.Load())

        def conv(x):
            if isinstance(x, slice):
                return ast.Slice(lower=piece(x.start), upper=piece(x.stop), step=piece(x.step))
            if x is None:
                return ast.Constant(value=None)
            return piece(x)
        node = conv(v) if isinstance(v, slice) else ast.Tuple(elts=[conv(x) for x in v], ctx=ast.Load())
        ast.copy_location(node, sl)
        ast.fix_missing_locations(node)
        return node

    def subscript(self, e):
        new_slice = self.materialise_slice(e.slice)
        if new_slice is not e.slice:
            e = ast.copy_location(ast.Subscript(value=e.value, slice=new_slice, ctx=e.ctx), e)
        base = self.expr(e.value)
        if isinstance(base, ShapeTuple):
            i = self.expr(e.slice)
            k = int(i.e) if isinstance(i, SV) else i
            s = base.sizes[k]
            if s is None:
                self.err("size of this axis is unknown", e)
            out = SV(s, [])
            out.from_lab = base.labels[k]
            return out
        if isinstance(base, tuple):
            i = self.expr(e.slice)
            return base[int(i.e) if isinstance(i, SV) else i]
        if not isinstance(base, SV):
            self.err("subscript of a non-array", e)
        # advanced (array) indices -> gather
        sl0 = e.slice
        elts0 = list(sl0.elts) if isinstance(sl0, ast.Tuple) else [sl0]
        idx_vals = []
        has_array = False
        for x in elts0:
            if isinstance(x, ast.Slice) or (isinstance(x, ast.Constant) and x.value is None) or (isinstance(x, ast.Attribute) and x.attr == "newaxis"):
                idx_vals.append(None)
                continue
            v = self.expr(x)
            idx_vals.append(v)
            if isinstance(v, SV) and v.labels:
                has_array = True
        masks = [v for v in idx_vals if isinstance(v, SV) and v.labels and len(v.labels) == 1 and v.e.has(sp.Function("MaskOver"))]
        if masks and base.labels is not None:
            # boolean selection along one axis: x[mask] / x[:, mask]; every other index must be a full slice
            pos = 0
            for x, v in zip(elts0, idx_vals):
                if (isinstance(x, ast.Constant) and x.value is None) or (isinstance(x, ast.Attribute) and x.attr == "newaxis"):
                    continue
                lab = base.labels[pos] if pos < len(base.labels) else None
                pos += 1
                if v is None:
                    if not (isinstance(x, ast.Slice) and x.lower is None and x.upper is None and x.step is None):
                        self.err("partial slice next to a boolean mask", e)
                    continue
                if v not in masks or lab is None or v.labels[0].base != lab.base:
                    raise LabelMismatch(f"`{ast.unparse(e)[:70]}`: the boolean mask counts {v.labels if isinstance(v, SV) else v} but indexes axis {lab}", e, (v.labels[0].base if isinstance(v, SV) and v.labels else None, lab.base if lab is not None else None))
                kinds = {str(m.args[0]) for m in v.e.atoms(sp.Function("MaskOver"))}
                shell = lab.base[2] if isinstance(lab.base, tuple) and lab.base[:2] == ("dim", "K") else "?"
                self.shared.setdefault("events", []).append(("K-filter:" + ",".join(sorted(kinds)), self.func, e, shell))
            return base  # the selected part has the same generic element and the same axis provenance
        if has_array:
            return self.gather(base, elts0, idx_vals, e)
        # table load?
        if getattr(base, "table", None) is not None:
            table = base.table
            index = self.index_of(table, e.slice, e)
            # store forwarding: reading back exactly what the latest store into this table wrote (same index, same loop iteration)
            prev = [s_ for s_ in self.stores if s_.table is table]
            if prev and isinstance(getattr(e, "ctx", None), ast.Load):
                sp_ = prev[-1]
                if [ix.text for ix in sp_.index] == [ix.text for ix in index] and getattr(sp_, "loop_ids", None) == list(self.shared.get("loop_ids", [])) \
                        and getattr(self, "_forwarding", False):
                    self._forwarded = sp_
                    return sp_.rhs
            rid = next(self.counter)
            labels = self.labels_after_index(table, index)
            self.refs[rid] = dict(table=table, index=index, labels=labels, node=e, func=self.func, loops=list(self.loops),
                                  loop_ids=list(self.shared.setdefault("loop_ids", [])))
            out = SV(TabRef(sp.Integer(rid)), labels)
            out.table_ref = rid
            return out
        sl = e.slice
        elts = list(sl.elts) if isinstance(sl, ast.Tuple) else [sl]
        if base.labels is None:
            return SV(base.e, None)
        labs = list(base.labels)
        out = []
        val = base.e
        pos = 0
        n_explicit = sum(1 for x in elts if not (isinstance(x, ast.Constant) and x.value is None) and not (isinstance(x, ast.Attribute) and x.attr == "newaxis"))
        if n_explicit > len(labs):
            self.err(f"too many indices in `{ast.unparse(e)[:60]}` for a value with axes {labs}", e)
        for x in elts:
            if (isinstance(x, ast.Constant) and x.value is None) or (isinstance(x, ast.Attribute) and x.attr == "newaxis"):
                out.append(ONE)
                continue
            lab = labs[pos]
            pos += 1
            if isinstance(x, ast.Slice):
                if x.lower is None and x.upper is None and x.step is None:
                    out.append(lab)
                    continue
                ix = self.index_entry(x, e)
                if lab.is_one():
                    out.append(lab)  # slicing a length-1 axis (0:1, 0:) keeps it
                    continue
                if isinstance(lab.base, tuple) and lab.base[:2] == ("dim", "K"):
                    self.shared.setdefault("events", []).append(("K-slice", self.func, e, lab.base[2]))
                if lab.base == "xyz":
                    if ix.kind == "unit" and ix.value.is_number:
                        # a length-1 window of the component axis singles out one component (and then broadcasts)
                        self.shared.setdefault("events", []).append(("xyz-const", self.func, e, int(ix.value)))
                        val = val.subs(c, ix.value)
                        out.append(ONE)
                        continue
                    if ix.kind != "full":
                        self.err("partial slice of the Cartesian-component axis", e)
                if ix.kind == "unit":
                    out.append(Lab(lab.base, lab.lo + ix.value, 0, unit=True))
                elif ix.kind in ("slice", "full"):
                    out.append(Lab(lab.base, lab.lo + ix.lo, (lab.hi if not isinstance(lab.hi, tuple) else 0) + ix.hi))
                else:
                    out.append(Lab(lab.base, lab.lo + ix.lo, ("upto", ix.value)))
                continue
            iv = self.expr(x)
            if isinstance(iv, SV) and iv.labels and len(iv.labels) == 1 and iv.e.has(sp.Function("MaskOver")) \
                    and isinstance(lab.base, tuple) and lab.base[:2] == ("dim", "K") and iv.labels[0].base == lab.base:
                # boolean selection of primitives: harmless only when it drops primitives whose coefficients are all zero
                kinds = {str(m.args[0]) for m in iv.e.atoms(sp.Function("MaskOver"))}
                self.shared.setdefault("events", []).append(("K-filter:" + ",".join(sorted(kinds)), self.func, e, lab.base[2]))
                out.append(lab)
                continue
            if isinstance(iv, SV) and not iv.labels:
                k = iv.e
                if lab.is_one():
                    continue  # indexing a broadcast axis with 0
                if lab.base == "xyz":
                    if not k.is_number:
                        self.err("Cartesian-component axis indexed by a non-constant", e)
                    self.shared.setdefault("events", []).append(("xyz-const", self.func, e, int(k)))
                    val = val.subs(c, k)
                    continue
                if isinstance(lab.base, tuple) and lab.base[:2] == ("dim", "K"):
                    self.shared.setdefault("events", []).append(("K-index", self.func, e, lab.base[2]))
                    continue
                if isinstance(lab.base, tuple) and lab.base[0] == "ar":
                    # a single entry of an arange
                    info = self.aranges[lab.base[1]]
                    val = val.subs(ARange(sp.Integer(lab.base[1])), info["start"] + lab.lo + k)
                    continue
                if isinstance(lab.base, tuple) and lab.base[0] in ("lit", "ordrow", "mom", "tab"):
                    val = val.subs(sp.Symbol("row"), k) if lab.base[0] == "ordrow" else val
                    sel = getattr(self, "_selected", None)
                    continue
                if isinstance(lab.base, tuple) and lab.base[:2] == ("dim", "L") and getattr(val.func, "__name__", "").startswith("Comp") \
                        and val.args == (c,) and k.is_number:
                    # one row of a shell's table of Cartesian components: (a_x, a_y, a_z) of its k-th component (every row sums to l)
                    val = sp.Function("Row" + val.func.__name__)(k, c)
                    continue
                # selecting one entry of a data axis (e.g. one primitive): not elementwise-generic any more
                self.err(f"axis {lab} indexed by `{ast.unparse(x)}`", e)
            self.err(f"index `{ast.unparse(x)}`", e)
        out.extend(labs[pos:])
        merged = [k2 for k2 in base.ar if not any(isinstance(l.base, tuple) and l.base[0] == "ar" and l.base[1] == k2 for l in labs)]
        if merged and val.has(ARange):
            self.err("subscript of a product that already contains an np.arange factor", e)
        view = getattr(base, "table_view", None)
        pure_slices = all(isinstance(x, ast.Slice) for x in elts)
        # every view of an np.arange gets its own identity: the same arange may be laid along different axes of one product
        out2 = []
        for l in out:
            if isinstance(l.base, tuple) and l.base[0] == "ar":
                nid = next(self.counter)
                self.aranges[nid] = dict(self.aranges[l.base[1]])
                val = val.subs(ARange(sp.Integer(l.base[1])), ARange(sp.Integer(nid)))
                out2.append(Lab(("ar", nid), l.lo, l.hi, l.unit))
            else:
                out2.append(l)
        res = SV(val, out2)
        if view is not None and pure_slices:
            res.table_view = view
        return res

    def gather(self, base, elts, idx_vals, node):
        """numpy advanced indexing with broadcasting index arrays; adjacent advanced indices put the broadcast axes in
        place of the first one, separated ones in front."""
        if base.labels is None:
            self.err("advanced indexing of a value of unknown rank", node)
        labs = list(base.labels)
        pos = 0
        adv_positions = []
        entries = []  # per source axis: ('adv', SV) | ('slice', Lab) | ('int', expr)
        for x, v in zip(elts, idx_vals):
            if v is None and not isinstance(x, ast.Slice):
                self.err("np.newaxis inside an advanced index", node)
            if pos >= len(labs):
                self.err("too many indices", node)
            lab = labs[pos]
            if isinstance(x, ast.Slice):
                if x.lower is None and x.upper is None and x.step is None:
                    entries.append(("slice", lab))
                else:
                    ix = self.index_entry(x, node)
                    if ix.kind == "upto":
                        entries.append(("slice", Lab(lab.base, lab.lo + ix.lo, ("upto", ix.value))))
                    elif ix.kind == "unit":
                        entries.append(("slice", Lab(lab.base, lab.lo + ix.value, 0, unit=True)))
                    else:
                        entries.append(("slice", Lab(lab.base, lab.lo + ix.lo, lab.hi + ix.hi)))
            elif isinstance(v, SV) and v.labels:
                entries.append(("adv", v))
                adv_positions.append(pos)
            elif isinstance(v, SV):
                entries.append(("adv", v))  # an integer next to index arrays counts as an advanced index
                adv_positions.append(pos)
            else:
                self.err("index kind in an advanced index", node)
            pos += 1
        for lab in labs[pos:]:
            entries.append(("slice", lab))
        advs = [en[1] for en in entries if en[0] == "adv"]
        # broadcast the index arrays
        bl = []
        for v in advs:
            cur = SV(sp.Integer(0), bl)
            bl = self.broadcast(cur, SV(sp.Integer(0), v.labels), node)
        adjacent = adv_positions == list(range(adv_positions[0], adv_positions[0] + len(adv_positions)))
        out = []
        placed = False
        if not adjacent:
            out.extend(bl)
            placed = True
        for en in entries:
            if en[0] == "adv":
                if not placed:
                    out.extend(bl)
                    placed = True
                continue
            out.append(en[1])
        # an identity index (np.arange over the whole axis it indexes) keeps that axis: rename its label
        ren = {}
        pos2 = 0
        for k, en in enumerate(entries):
            if en[0] == "adv" and isinstance(en[1], SV) and isinstance(en[1].e, ARange):
                aid = int(en[1].e.args[0])
                info = self.aranges[aid]
                src = labs[k] if k < len(labs) else None
                if src is not None and info["start"] == 0 and not src.is_one():
                    s1, s2 = info["size"], self.size_of(src)
                    if s2 is not None and sp.simplify(s1 - s2) == 0:
                        ren[("ar", aid)] = src
        out = [ren.get(l.base, l) if isinstance(l.base, tuple) else l for l in out]
        gid = next(self.counter)
        tab = getattr(base, "table", None)
        view = getattr(base, "table_view", None)
        self.shared["gathers"][gid] = dict(node=node, base=base, table=tab, view=view, entries=entries, labels=out, func=self.func,
                                           index_labels=[(en[1].labels if en[0] == "adv" else None) for en in entries])
        idx_exprs = []
        for k, en in enumerate(entries):
            if en[0] == "adv":
                ee = en[1].e
                # an arange aligned with the component axis selects the generic component
                for ar in ee.atoms(ARange):
                    aid = int(ar.args[0])
                    info = self.aranges[aid]
                    lab = en[1].ar[aid][1] if aid in en[1].ar else None
                    if lab is not None and sp.simplify(self.size_of(lab) - 3) == 0 and info["start"] == 0 and not lab.lo:
                        ee = ee.subs(ar, c)
                if isinstance(en[1].e, ARange) and ("ar", int(en[1].e.args[0])) in ren and ren[("ar", int(en[1].e.args[0]))].base == "xyz":
                    ee = c  # identity along the Cartesian-component axis: the generic component
                elif isinstance(en[1].e, ARange) and ("ar", int(en[1].e.args[0])) in ren:
                    ee = Iota(sp.Symbol(str(ren[("ar", int(en[1].e.args[0]))])))  # identity index along that axis
                idx_exprs.append(ee)
            else:
                idx_exprs.append(sp.Symbol(f"slice{k}"))
        self.shared["gathers"][gid]["idx_exprs"] = idx_exprs
        g = Gather(sp.Integer(gid), *idx_exprs)
        val = g
        be = base.e
        tsyms = be.atoms(TabSym) | be.atoms(TabRef)
        if be != 0 and len(tsyms) == 1 and (be.atoms(ARange) or be != list(tsyms)[0]):
            # the table was scaled as a whole before the selection: evaluate the scale factors at the selected indices
            val = be.subs(list(tsyms)[0], g)
            for ar in be.atoms(ARange):
                aid = int(ar.args[0])
                if aid not in base.ar:
                    self.err("np.arange factor of unknown alignment in a gathered array", node)
                frm_right, lab = base.ar[aid]
                k = len(labs) - 1 - frm_right
                if k < 0 or k >= len(idx_exprs) or isinstance(idx_exprs[k], sp.Symbol) and str(idx_exprs[k]).startswith("slice"):
                    self.err("np.arange factor aligned with an axis that is not selected by an index array", node)
                val = val.subs(ar, self.aranges[aid]["start"] + lab.lo + idx_exprs[k])
        res = SV(val, out)
        return res

    # ------------------------------------------------------------------ calls
    def call(self, e):
        d = dotted(e.func)
        short = d.split(".")[-1] if d else None
        if d == "zip" and e.args and not e.keywords:
            seqs = [self.expr(a) for a in e.args]
            if all(isinstance(x, (tuple, list)) for x in seqs):
                return [tuple(t) for t in zip(*seqs)]
        if d in ("tuple", "list") and len(e.args) == 1:
            v = self.expr(e.args[0])
            if isinstance(v, (tuple, list)):
                return tuple(v) if d == "tuple" else list(v)
        if d == "enumerate" and len(e.args) == 1:
            v = self.expr(e.args[0])
            if isinstance(v, (tuple, list)):
                return [(SV(sp.Integer(k), []), x) for k, x in enumerate(v)]
        if d == "slice" and 1 <= len(e.args) <= 3 and not e.keywords:
            def bound(a):
                v = self.expr(a)
                if v is None:
                    return None
                if isinstance(v, SV) and not v.labels:
                    return int(v.e) if getattr(v.e, "is_Integer", False) else v
                self.err("slice() bound", e)
            vals = [bound(a) for a in e.args]
            return slice(*vals)
        if d == "len" and len(e.args) == 1:
            v = self.expr(e.args[0])
            if isinstance(v, (tuple, list)):
                return SV(sp.Integer(len(v)), [])
        # method calls on values
        if isinstance(e.func, ast.Attribute) and not (d and d.split(".")[0] in ("np", "numpy")):
            recv = self.expr(e.func.value)
            if isinstance(recv, list) and e.func.attr in ("append", "extend") and len(e.args) == 1:
                v = self.expr(e.args[0])
                if e.func.attr == "append":
                    recv.append(v)
                else:
                    if not isinstance(v, (tuple, list)):
                        self.err("list.extend with a non-sequence", e)
                    recv.extend(v)
                return None
            if isinstance(recv, SV):
                return self.method(recv, e.func.attr, e)
            if callable(recv):
                return recv(self, e)
            self.err(f"call `{ast.unparse(e.func)}`", e)
        if isinstance(e.func, ast.Name) and e.func.id in self.env and callable(self.env[e.func.id]):
            return self.env[e.func.id](self, e)
        if d in ("range",):
            self.err("range outside a for loop", e)
        if d and d.split(".")[0] in ("np", "numpy"):
            return self.numpy(short, e)
        h = self.env.get("__call__" + (short or ""))
        if h is not None:
            return h(self, e)
        if short == "factorial2" and len(e.args) == 1:
            v = self.expr(e.args[0])
            return SV(sp.Function("F2")(v.e), v.labels, v.ar)
        if self.repo is not None and d:
            from .model import Func
            r = self.repo.resolve_name(self.func.module, d, self.func)
            if isinstance(r, Func):
                return self.call_gbasis(r, e)
        self.err(f"call `{d}` not modelled", e)

    def call_gbasis(self, g, e):
        params = g.params
        args = []
        for a in e.args:
            if isinstance(a, ast.Starred):
                v = self.expr(a.value)
                if not isinstance(v, (tuple, list)):
                    self.err("*args of a non-sequence", e)
                args.extend(v)
            else:
                args.append(self.expr(a))
        env = {}
        for nm, v in zip(params, args):
            env[nm] = v
        for k in e.keywords:
            if k.arg is None:
                kv = self.expr(k.value)
                if not (isinstance(kv, dict) and all(isinstance(x, str) for x in kv)):
                    self.err("**kwargs in a kernel call that is not a dictionary built in this function", e)
                unknown = [x for x in kv if x not in params]
                if unknown:
                    self.err(f"keyword(s) {unknown} are not parameters of {g.name}", e)
                env.update(kv)
                continue
            env[k.arg] = self.expr(k.value)
        missing = [p for p in params if p not in env]
        if missing:
            # parameters with a constant default (None, a number, True/False) take it
            a_ = g.node.args
            pos = a_.posonlyargs + a_.args
            defaults = dict(zip([x.arg for x in pos][len(pos) - len(a_.defaults):], a_.defaults))
            defaults.update({x.arg: d_ for x, d_ in zip(a_.kwonlyargs, a_.kw_defaults) if d_ is not None})
            for p_ in list(missing):
                d_ = defaults.get(p_)
                lit = isinstance(d_, ast.Constant) and (d_.value is None or isinstance(d_.value, (bool, int, float, str)))
                if not lit and isinstance(d_, (ast.Tuple, ast.List)):
                    try:
                        ast.literal_eval(d_)
                        lit = True
                    except Exception:
                        lit = False
                if lit:
                    env[p_] = self.expr(d_)
                    missing.remove(p_)
        if missing:
            self.err(f"call of {g.name} without {missing}", e)
        sub = Extractor(g, env, rule=self.rule, repo=self.repo, shared=self.shared)
        sub.run()
        sub.call_node = e
        sub.call_args = args
        self.children.append(sub)
        if len(sub.returns) != 1:
            self.err(f"{g.name} does not have exactly one return", e)
        return sub.returns[0][1]

    def all_extractors(self):
        out = [self]
        for ch in self.children:
            out.extend(ch.all_extractors())
        return out

    def kw(self, e, name, default=None):
        for k in e.keywords:
            if k.arg == name:
                return k.value
        return default

    def axis_arg(self, e, argpos=1):
        node = self.kw(e, "axis") or (e.args[argpos] if len(e.args) > argpos else None)
        if node is None:
            return None
        v = self.expr(node)
        if isinstance(v, tuple):
            return tuple(int(x.e) for x in v)
        return int(v.e)

    def reduce(self, v, axis, kind, node):
        if v.labels is None:
            self.err("reduction of a value of unknown rank", node)
        n = len(v.labels)
        axes = list(range(n)) if axis is None else [axis] if isinstance(axis, int) else list(axis)
        axes = [a + n if a < 0 else a for a in axes]
        val = v.e
        labs = []
        for k, lab in enumerate(v.labels):
            if k not in axes:
                labs.append(lab)
                continue
            if lab.is_one():
                continue
            if lab.base == "xyz" and not lab.lo and not lab.hi:
                terms = [val.subs(c, k2) for k2 in range(3)]
                val = sp.Add(*terms) if kind == "sum" else sp.Mul(*terms)
                continue
            if isinstance(lab.base, tuple) and lab.base[:2] == ("dim", "K"):
                self.shared.setdefault("events", []).append(("K-reduce", self.func, node, lab.base[2]))
                val = sp.Function("ReduceK")(val)
                continue
            if isinstance(lab.base, tuple) and lab.base[0] == "ordrow" and kind == "sum":
                rows = self.shared["order_tables"][lab.base[1]]
                val = sp.Add(*[val.subs(sp.Symbol("row"), k2) for k2 in range(len(rows))])
                self.shared.setdefault("row_sums", []).append((lab.base[1], node))
                continue
            self.err(f"reduction over axis {lab}", node)
        return SV(val, labs)

    def squeeze(self, v, axis, node):
        if v.labels is None:
            return v
        n = len(v.labels)
        if axis is None:
            return SV(v.e, [l for l in v.labels if not l.is_one()])
        axes = [axis] if isinstance(axis, int) else list(axis)
        axes = [a + n if a < 0 else a for a in axes]
        for a in axes:
            if not v.labels[a].is_one():
                raise LabelMismatch(f"`{ast.unparse(node)[:70]}` squeezes axis {a} = {v.labels[a]} which is not of length 1", node)
        return SV(v.e, [l for k, l in enumerate(v.labels) if k not in axes])

    def reshape(self, v, targets, node):
        if v.labels is None:
            return v
        non1 = [l for l in v.labels if not l.is_one()]
        out = []
        used = 0
        for t in targets:
            tv = self.expr(t) if isinstance(t, ast.AST) else t
            k = tv.e if isinstance(tv, SV) else tv
            if k == 1:
                out.append(ONE)
            elif k == -1:
                if len(non1) - used != 1:
                    self.err("reshape(-1) of a value that does not have exactly one remaining axis", node)
                out.append(non1[used])
                used += 1
            else:
                if getattr(k, "is_Integer", False) or isinstance(k, int):
                    raise KernelDefect(f"`{ast.unparse(node)[:70]}` reshapes to a fixed extent {k}: an axis whose length is a shell's number of primitives / "
                                       f"components cannot be folded into {k} (ValueError for most lengths, mis-aligned broadcasting for the rest)", node)
                self.err(f"reshape target `{k}`", node)
        if used != len(non1):
            self.err("reshape drops an axis", node)
        return SV(v.e, out)

    def method(self, recv, attr, e):
        if attr == "squeeze":
            return self.squeeze(recv, self.axis_arg(e, 0), e)
        if attr == "sum":
            return self.reduce(recv, self.axis_arg(e, 0), "sum", e)
        if attr == "reshape":
            args = e.args[0].elts if len(e.args) == 1 and isinstance(e.args[0], (ast.Tuple, ast.List)) else e.args
            if len(e.args) == 1 and isinstance(e.args[0], ast.Name):
                v = self.expr(e.args[0])
                if isinstance(v, (tuple, list)):
                    args = list(v)
            return self.reshape(recv, args, e)
        if attr in ("copy", "astype"):
            return recv
        if attr in ("any", "all") and not e.args and not e.keywords:
            return SV(sp.Function("Indicator")(sp.Symbol(attr), recv.e, sp.Integer(0)), [])
        if attr in ("transpose", "swapaxes", "prod", "max", "min"):
            # x.m(args) == np.m(x, args): re-dispatch through the function form
            if attr == "transpose":
                a = e.args
                perm = a[0] if len(a) == 1 and isinstance(a[0], (ast.Tuple, ast.List)) else ast.Tuple(elts=list(a), ctx=ast.Load())
                newargs = [e.func.value, perm]
            else:
                newargs = [e.func.value] + list(e.args)
            fake = ast.Call(func=ast.Attribute(value=ast.Name(id="np", ctx=ast.Load()), attr=attr, ctx=ast.Load()), args=newargs, keywords=e.keywords)
            ast.copy_location(fake, e)
            ast.fix_missing_locations(fake)
            return self.numpy(attr, fake)
        self.err(f"method .{attr}()", e)

    def numpy(self, short, e):
        if short == "zeros":
            shp = self.expr(e.args[0])
            shp = shp if isinstance(shp, tuple) else (shp,)
            sizes = [self.as_int(s, e) for s in shp]
            if self.kw(e, "dtype") is not None:
                if all(x.is_number for x in sizes):
                    labs = [Lab("xyz") if x == 3 else Lab(("lit", int(x), next(self.counter))) for x in sizes]
                    return SV(sp.Integer(0), labs)
                self.err("np.zeros with a dtype in a recursion kernel", e)
            labels = []
            for k, s in enumerate(sizes):
                src = getattr(shp[k], "from_lab", None)
                if s == 3 and isinstance(shp[k], SV) and shp[k].e.is_number:
                    labels.append(Lab("xyz"))
                elif src is not None and isinstance(src.base, tuple) and src.base[0] == "dim" and not src.lo and not src.hi:
                    labels.append(Lab(src.base))
                else:
                    labels.append(Lab(("tab", "?", k)))
            if len(sizes) == 1 and sizes[0] == 3:
                return SV(sp.Integer(0), [Lab("xyz")])  # np.zeros(3): a zero vector
            tk = next(self.counter)
            v = SV(TabSym(sp.Integer(tk)), labels)
            v.table = Table("?", 0, sizes, labels, e)
            self.shared.setdefault("tabsyms", {})[tk] = v.table
            return v
        if short == "arange":
            args = [self.as_int(self.expr(a), e) for a in e.args]
            start, stop = (sp.Integer(0), args[0]) if len(args) == 1 else (args[0], args[1])
            aid = next(self.counter)
            self.aranges[aid] = dict(start=start, size=stop - start)
            if len(e.args) == 1:
                a0 = self.expr(e.args[0])
                fl = getattr(a0, "from_lab", None)
                if fl is not None:
                    self.aranges[aid]["iota_of"] = fl  # np.arange(x.shape[k]): the identity index of that axis
            return SV(ARange(sp.Integer(aid)), [Lab(("ar", aid))])
        if short in ("any", "all") and e.args:
            v = self.expr(e.args[0])
            ax = self.axis_arg(e)
            if isinstance(v, SV) and v.labels is not None and v.e.has(sp.Function("Indicator")):
                if ax is None:
                    return SV(sp.Function("Indicator")(sp.Symbol(short), v.e, sp.Integer(0)), [])
                ax = ax if isinstance(ax, int) else ax[0]
                ax = ax % len(v.labels)
                red = v.labels[ax]
                inds = list(v.e.atoms(sp.Function("Indicator")))
                # which test is reduced: `coeffs != 0` over the segment axis of the same shell is the "some coefficient is non-zero" mask
                kind = short
                if len(inds) == 1 and str(inds[0].args[0]) == "NotEq" and inds[0].args[2] == 0 and isinstance(red.base, tuple) and red.base[:2] == ("dim", "M") \
                        and str(inds[0].args[1]).startswith("coef"):
                    kind = ("some-coefficient-nonzero" if short == "any" else "every-coefficient-nonzero")
                return SV(sp.Function("MaskOver")(sp.Symbol(kind), v.e), [l for k2, l in enumerate(v.labels) if k2 != ax])
        if short in ("exp", "sqrt"):
            v = self.expr(e.args[0])
            return SV(sp.exp(v.e) if short == "exp" else sp.sqrt(v.e), v.labels)
        if short == "sum":
            return self.reduce(self.expr(e.args[0]), self.axis_arg(e), "sum", e)
        if short == "prod":
            return self.reduce(self.expr(e.args[0]), self.axis_arg(e), "prod", e)
        if short == "squeeze":
            return self.squeeze(self.expr(e.args[0]), self.axis_arg(e), e)
        if short == "max":
            v = self.expr(e.args[0])
            if isinstance(v, SV):
                if v.e.is_number:
                    return SV(v.e, [])
                if isinstance(v.e, OrderTab) and int(v.e.args[0]) in ORDER_TABLES:
                    return SV(sp.Integer(max(max(r) for r in ORDER_TABLES[int(v.e.args[0])])), [])
                tabs_ = list(v.e.atoms(OrderTab))
                if len(tabs_) == 1 and int(tabs_[0].args[0]) in ORDER_TABLES:
                    # an increasing affine function k * table + b (k > 0) of a literal order table: the maximum is taken at the largest entry
                    tsym = sp.Symbol("tab_entry", real=True)
                    fexp = v.e.subs(tabs_[0], tsym)
                    k_ = sp.diff(fexp, tsym)
                    if fexp.free_symbols == {tsym} and k_.is_number and k_ > 0:
                        top = max(max(r) for r in ORDER_TABLES[int(tabs_[0].args[0])])
                        val_ = sp.simplify(fexp.subs(tsym, top))
                        if val_.is_number:
                            return SV(val_, [])
                return SV(sp.Function("Max_over")(v.e.subs(c, sp.Symbol("c_any"))), [])
        if short == "array" and e.args and isinstance(e.args[0], ast.List):
            try:
                lit = ast.literal_eval(e.args[0])
            except Exception:
                lit = None
            if lit is not None and isinstance(lit, list) and lit and all(isinstance(r, list) and len(r) == 3 for r in lit):
                # literal table of order vectors: rows along a literal axis, columns = components
                rows = [tuple(r) for r in lit]
                oid = next(self.counter)
                self.shared.setdefault("order_tables", {})[oid] = rows
                ORDER_TABLES[oid] = rows
                return SV(OrderTab(sp.Integer(oid), sp.Symbol("row"), c), [Lab(("ordrow", oid)), Lab("xyz")])
        if short in ("identity", "eye") and len(e.args) == 1 and isinstance(e.args[0], ast.Constant) and e.args[0].value == 3:
            # the unit order vectors e_x, e_y, e_z as a generated table (np.identity(3, dtype=int))
            rows = [(1, 0, 0), (0, 1, 0), (0, 0, 1)]
            oid = next(self.counter)
            self.shared.setdefault("order_tables", {})[oid] = rows
            ORDER_TABLES[oid] = rows
            return SV(OrderTab(sp.Integer(oid), sp.Symbol("row"), c), [Lab(("ordrow", oid)), Lab("xyz")])
        if short == "swapaxes" and len(e.args) == 3:
            x = self.expr(e.args[0])
            a1, a2 = self.expr(e.args[1]), self.expr(e.args[2])
            if isinstance(x, SV) and x.labels is not None and isinstance(a1, SV) and isinstance(a2, SV) and a1.e.is_number and a2.e.is_number:
                n_ax = len(x.labels)
                i1, i2 = int(a1.e) % n_ax, int(a2.e) % n_ax
                order = list(range(n_ax))
                order[i1], order[i2] = order[i2], order[i1]
                fake = ast.Call(func=ast.Attribute(value=ast.Name(id="np", ctx=ast.Load()), attr="transpose", ctx=ast.Load()),
                                args=[e.args[0], ast.Tuple(elts=[ast.Constant(value=k) for k in order], ctx=ast.Load())], keywords=[])
                ast.copy_location(fake, e)
                ast.fix_missing_locations(fake)
                return self.numpy("transpose", fake)
        if short == "moveaxis" and len(e.args) == 3:
            x = self.expr(e.args[0])
            src, dst = self.expr(e.args[1]), self.expr(e.args[2])
            if isinstance(x, SV) and x.labels is not None and isinstance(src, SV) and isinstance(dst, SV) and src.e.is_number and dst.e.is_number:
                n_ax = len(x.labels)
                si, di = int(src.e) % n_ax, int(dst.e) % n_ax
                order = [k for k in range(n_ax) if k != si]
                order.insert(di, si)
                fake = ast.Call(func=ast.Attribute(value=ast.Name(id="np", ctx=ast.Load()), attr="transpose", ctx=ast.Load()),
                                args=[e.args[0], ast.Tuple(elts=[ast.Constant(value=k) for k in order], ctx=ast.Load())], keywords=[])
                ast.copy_location(fake, e)
                ast.fix_missing_locations(fake)
                return self.numpy("transpose", fake)
        if short == "tensordot":
            x, y = self.expr(e.args[0]), self.expr(e.args[1])
            axes = self.expr(e.args[2])
            if isinstance(x, SV) and isinstance(y, SV) and x.labels is not None and y.labels is not None and isinstance(axes, tuple):
                i, j = int(axes[0].e), int(axes[1].e)
                if i < 0:
                    i += len(x.labels)
                if j < 0:
                    j += len(y.labels)
                if not (0 <= i < len(x.labels) and 0 <= j < len(y.labels)):
                    raise LabelMismatch(f"`{ast.unparse(e)[:80]}`: axis out of range for operands with axes {x.labels} and {y.labels}", e)
                lx, ly = x.labels[i], y.labels[j]
                if lx.is_one() or ly.is_one() or (lx.base != ly.base and not self.compatible(lx, ly)):
                    raise LabelMismatch(f"`{ast.unparse(e)[:80]}` contracts axis {lx} with axis {ly}", e, (lx.base, ly.base))
                labs = [l for k, l in enumerate(x.labels) if k != i] + [l for k, l in enumerate(y.labels) if k != j]
                out = SV(Contract(x.e * y.e, sp.Symbol("over_" + "_".join(str(z) for z in (lx.base if isinstance(lx.base, tuple) else (lx.base,))))), labs)
                return out
        if short == "einsum" and e.args and isinstance(e.args[0], ast.Constant) and isinstance(e.args[0].value, str) \
                and "->" in e.args[0].value and "." not in e.args[0].value:
            spec = e.args[0].value.replace(" ", "")
            ins, outs = spec.split("->")
            ins = ins.split(",")
            ops = [self.expr(a) for a in e.args[1:]]
            if len(ins) == len(ops) and all(isinstance(o, SV) and o.labels is not None for o in ops):
                letter = {}
                prod = sp.Integer(1)
                for sub, o in zip(ins, ops):
                    if len(sub) != len(o.labels):
                        raise LabelMismatch(f"`{ast.unparse(e)[:80]}`: subscripts `{sub}` for an operand with axes {o.labels}", e)
                    for ch, lab in zip(sub, o.labels):
                        if lab.is_one():
                            continue
                        if ch in letter and letter[ch].base != lab.base and not self.compatible(letter[ch], lab):
                            raise LabelMismatch(f"`{ast.unparse(e)[:80]}`: index `{ch}` joins axis {letter[ch]} with axis {lab}", e, (letter[ch].base, lab.base))
                        letter.setdefault(ch, lab)
                    prod = prod * o.e
                if any(ch not in letter for ch in outs) or len(set(outs)) != len(outs):
                    self.err("einsum output subscripts", e)
                val = prod
                for ch in sorted(set(letter) - set(outs)):
                    lx = letter[ch]
                    val = Contract(val, sp.Symbol("over_" + "_".join(str(z) for z in (lx.base if isinstance(lx.base, tuple) else (lx.base,)))))
                return SV(val, [letter[ch] for ch in outs])
        if short == "transpose":
            x = self.expr(e.args[0])
            perm = self.expr(e.args[1]) if len(e.args) > 1 else None
            if isinstance(x, SV) and x.labels is not None and isinstance(perm, tuple):
                pp = [int(q.e) for q in perm]
                if sorted(pp) != list(range(len(x.labels))):
                    raise LabelMismatch(f"`{ast.unparse(e)[:80]}`: {pp} is not a permutation of the {len(x.labels)} axes {x.labels}", e)
                n_ax = len(pp)
                new_ar = {}
                for aid, (frm, lab) in x.ar.items():
                    oldpos = n_ax - 1 - frm
                    if 0 <= oldpos < n_ax:
                        new_ar[aid] = (n_ax - 1 - pp.index(oldpos), lab)
                out = SV(x.e, [x.labels[q] for q in pp], new_ar)
                if getattr(x, "table", None) is not None:
                    out.table_view = (x.table, pp)
                elif getattr(x, "table_view", None) is not None:
                    t0, p0 = x.table_view
                    out.table_view = (t0, [p0[q] for q in pp])
                return out
        if short == "stack" and e.args:
            items = self.expr(e.args[0])
            ax = self.axis_arg(e)
            ax = 0 if ax is None else ax
            if isinstance(items, (tuple, list)) and items and all(isinstance(x, SV) and x.labels is not None for x in items):
                labs = items[0].labels
                for it in items[1:]:
                    if [l.base for l in it.labels] != [l.base for l in labs]:
                        raise LabelMismatch(f"`np.stack(...)` stacks arrays with different axes {labs} / {it.labels}", e)
                ros = [getattr(x, "row_origin", None) for x in items]
                if all(r_ is not None for r_ in ros) and len({id(r_[0]) for r_ in ros}) == 1 and [r_[1] for r_ in ros] == list(range(len(items))) \
                        and len({sp.srepr(r_[2]) for r_ in ros}) == 1:
                    rows_ = self.shared["order_tables"][ros[0][0].base[1]]
                    if len(rows_) == len(items):
                        # the rows of one row-indexed array, each treated alike, joined again in their order: the same array with the
                        # row axis at the new position
                        newl = list(labs)
                        newl.insert(ax % (len(labs) + 1), ros[0][0])
                        return SV(ros[0][2], newl)
                sid = next(self.counter)
                self.shared.setdefault("stacks", {})[sid] = [x.e for x in items]
                n_new = len(labs) + 1
                pos = ax % n_new
                newl = list(labs)
                newl.insert(pos, Lab(("stack", sid, len(items))))
                return SV(Stack(sp.Integer(sid), sp.Symbol("stackrow")), newl)
        if short == "array" and e.args and isinstance(e.args[0], (ast.List, ast.ListComp, ast.Name)) and len(e.args) == 1 and not e.keywords:
            items = [self.expr(x) for x in e.args[0].elts] if isinstance(e.args[0], ast.List) else self.expr(e.args[0])
            if isinstance(items, list) and items and all(isinstance(x, SV) and x.labels is not None for x in items):
                labs = items[0].labels
                for it in items[1:]:
                    if [l.base for l in it.labels] != [l.base for l in labs]:
                        raise LabelMismatch(f"`np.array([...])` stacks arrays with different axes {labs} / {it.labels}", e)
                sid = next(self.counter)
                self.shared.setdefault("stacks", {})[sid] = [x.e for x in items]
                return SV(Stack(sp.Integer(sid), sp.Symbol("stackrow")), [Lab(("stack", sid, len(items)))] + list(labs))
        if short in ("multiply", "add", "subtract", "divide", "true_divide") and len(e.args) == 2 and not e.keywords:
            op = {"multiply": ast.Mult(), "add": ast.Add(), "subtract": ast.Sub(), "divide": ast.Div(), "true_divide": ast.Div()}[short]
            return self.binop(op, self.expr(e.args[0]), self.expr(e.args[1]), e)
        if short == "empty" and e.args:
            shp = e.args[0]
            first = None
            while isinstance(shp, ast.BinOp) and isinstance(shp.op, ast.Add):
                shp = shp.left  # (n, a, b) + other.shape[k:]
            if isinstance(shp, ast.Tuple) and shp.elts and isinstance(shp.elts[0], ast.Constant) and isinstance(shp.elts[0].value, int):
                first = shp.elts[0].value
            if first is None or not 1 <= first <= 16:
                self.err("np.empty whose leading extent is not a small constant", e)
            return Slots(first, e)
        if short in ("tensordot", "transpose", "concatenate", "array"):
            # plumbing after the recursion: opaque here (typed by AXTYPE); remember what it was built from
            args = [self.expr(a) for a in e.args[:1]]
            k = next(self.counter)
            v = SV(sp.Function("OPAQUE")(sp.Integer(k)), None)
            self.opaque[k] = dict(node=e, arg=args[0] if args else None, kind=short)
            return v
        self.err(f"numpy function np.{short}", e)


class Iota(sp.Function):
    """Identity index along an axis (np.arange over the whole axis it selects from)."""
    nargs = 1


class TabSym(sp.Function):
    """The generic element of a whole recursion table (used when the table is passed on / transposed / scaled as a whole)."""
    nargs = 1


class Stack(sp.Function):
    """Row `stackrow` of np.array([e0, e1, ...]): args = (stack id, row symbol)."""
    nargs = 2


class Contract(sp.Function):
    """Sum over a contracted axis of the product of two arrays (np.tensordot): args = (product, axis marker)."""
    nargs = 2


class Gather(sp.Function):
    """Element of a table selected by index arrays: args = (gather id, index expr for each indexed axis...)."""


ORDER_TABLES = {}


class OrderTab(sp.Function):
    """Entry (row, component) of a literal table of order vectors: args = (table id, row symbol, component)."""
    nargs = 3

    @classmethod
    def eval(cls, tid, row, comp):
        if tid.is_number and row.is_number and comp.is_number and int(tid) in ORDER_TABLES:
            return sp.Integer(ORDER_TABLES[int(tid)][int(row)][int(comp)])


class ShellSym:
    """A symbolic shell bound to a position of the public kernel (1-based)."""
    CENTRES = {1: "A", 2: "B", 3: "C", 4: "D"}
    EXPS = {1: "alpha", 2: "beta", 3: "gamma", 4: "delta"}

    def __init__(self, pos):
        self.pos = pos

    def attr(self, name, ex, node):
        s = self.pos
        K, M, L = Lab(("dim", "K", s)), Lab(("dim", "M", s)), Lab(("dim", "L", s))
        if name == "coord":
            return SV(sp.Function(self.CENTRES[s])(c), [Lab("xyz")])
        if name == "exps":
            return SV(sp.Symbol(self.EXPS[s], positive=True), [K])
        if name == "coeffs":
            return SV(sp.Symbol(f"coef{s}"), [K, M])
        if name == "norm_prim_cart":
            return SV(sp.Symbol(f"NPC{s}"), [L, K])
        if name == "angmom_components_cart":
            return SV(sp.Function(f"Comp{s}")(c), [L, Lab("xyz")])
        if name == "angmom":
            return SV(sp.Symbol(f"l{s}", integer=True, nonnegative=True), [])
        if name == "num_seg_cont":
            return SV(sp.Symbol(f"n_M_{s}", integer=True, positive=True), [])
        if name in ("num_cart",):
            return SV(sp.Symbol(f"n_L_{s}", integer=True, positive=True), [])
        ex.err(f"shell attribute `{name}` not modelled", node)


def boys_callable(ex, e):
    """boys_func(orders, weighted_dist): uninterpreted special function, elementwise in both arguments."""
    a0, a1 = ex.expr(e.args[0]), ex.expr(e.args[1])
    labels = ex.broadcast(a0, a1, e)
    out = SV(Boys(a0.e, a1.e), labels)
    for k2, v2 in {**a0.ar, **a1.ar}.items():
        out.ar.setdefault(k2, v2)
    return out


class ClsSym:
    """`cls` of a classmethod kernel: only its callable attributes are used."""

    def attr(self, name, ex, node):
        if name == "boys_func":
            return boys_callable
        ex.err(f"class attribute `{name}`", node)


class _Returned(Exception):
    pass


class Slots:
    """np.empty((n, ...)) that is filled by `out[k] = block` for every constant k: the same as np.array([block_0, ..., block_{n-1}])"""

    def __init__(self, n, node):
        self.items = [None] * n
        self.node = node


class ShapeTuple:
    def __init__(self, sizes, labels):
        self.sizes, self.labels = sizes, labels


class LabelMismatch(Exception):
    """involved: the bases of the axes that do not fit (None when the construct fails as a whole, e.g. an axis out of range)"""

    def __init__(self, msg, node, involved=None):
        self.msg, self.node, self.involved = msg, node, involved


class _NoOpStore(Exception):
    pass


class KernelDefect(LabelMismatch):
    """A definite defect found while evaluating a kernel that is not an axis mismatch (reported by the same handlers, message as is)"""
    plain = True


class ValueDefect(KernelDefect):
    """A defect of the computed values that leaves axes, layout and symmetry alone: reported by the checks of the operators that use the
    kernel, not by the cross-cutting layout / symmetry checks"""
    value_only = True


def store_outside_table(store, tab):
    """True when on some table axis of constant extent N the smallest index the store can write is >= N (slice stores are then
    empty, loop stores never run)."""
    try:
        tsyms = target_index_symbols(store)
    except AnalysisError:
        return False
    for k, ts in enumerate(tsyms):
        size = tab.sizes[k] if k < len(tab.sizes) else None
        if size is None:
            continue
        size = sp.simplify(size)
        low = sp.simplify(ts[1]) if ts[1] is not None else None
        if getattr(size, "is_Integer", False) and low is not None and getattr(low, "is_Integer", False) and low >= size:
            # constant integer indices beyond the extent would raise in numpy: only slices and (empty) loops are silent
            ix = store.index[k]
            if ix.kind in ("unit", "slice", "upto"):
                return True
            if ix.kind == "var":
                lv = [(l, h) for v, l, h in store.loops if ix.value.has(v)]
                if lv and all(getattr(sp.simplify(h - l), "is_nonpositive", False) for l, h in lv):
                    return True  # the loop that would write there is empty
    return False



# ============================================================================================ stencil terms
def linear_terms(ex, store):
    """Decompose the rhs of a store into  const + sum coef_k * TabRef_k  (must be linear in the table references)."""
    rhs = store.rhs
    raw = rhs.e
    same = [r for r in raw.atoms(TabRef) if ex.refs[int(r.args[0])]["table"] is store.table]
    if not same:
        return [], raw  # start value / initialisation from a previous stage
    expr = sp.expand(raw)
    refs = sorted(expr.atoms(TabRef), key=lambda r: int(r.args[0]))
    syms = {r: sp.Symbol(f"__T{int(r.args[0])}") for r in refs}
    sub = expr.subs(syms)
    try:
        poly = sp.Poly(sub, *syms.values())
    except sp.polys.polyerrors.PolynomialError:
        raise KernelDefect(f"`{store.text}` is not a linear recurrence: its right-hand side divides by (or takes a non-polynomial function of) a table entry",
                           store.node)
    if poly.total_degree() > 1:
        raise KernelDefect(f"`{store.text}` is not a linear recurrence: its right-hand side multiplies table entries with each other", store.node)
    terms = []
    const = sp.Integer(0)
    inv = {v: k for k, v in syms.items()}
    for mon, coef in poly.terms():
        if sum(mon) == 0:
            const = coef
            continue
        sym = list(syms.values())[mon.index(1)]
        r = inv[sym]
        terms.append((int(r.args[0]), sp.simplify(coef)))
    return terms, const


def target_index_symbols(store):
    """Per table axis: the symbolic value of the target index and its lower bound (domain)."""
    out = []
    for k, ix in enumerate(store.index):
        if ix.kind == "const":
            out.append((ix.value, ix.value, True))
        elif ix.kind == "var":
            # loop expression v + c : domain from the loop bounds
            lo = ix.value
            for v, l, h in store.loops:
                lo = lo.subs(v, l)
            out.append((sp.Symbol(f"t{k}", integer=True), lo, False, ix.value))
        elif ix.kind == "unit":
            out.append((ix.value, ix.value, True))
        elif ix.kind in ("slice", "full", "upto"):
            out.append((sp.Symbol(f"t{k}", integer=True), ix.lo, False))
        else:
            raise AnalysisError("STENCIL", f"index kind {ix.kind}")
    return out


def offsets(store, ref):
    """Offset (source index - target index) per table axis; None if not a pure shift."""
    out = []
    for k, (ti, si) in enumerate(zip(store.index, ref["index"])):
        def pos(ix):
            if ix.kind in ("const", "unit"):
                return ("p", ix.value)
            if ix.kind == "var":
                return ("p", ix.value)
            if ix.kind in ("slice", "full"):
                return ("w", ix.lo, ix.hi)
            if ix.kind == "upto":
                return ("u", ix.lo, ix.value)
        a, b = pos(ti), pos(si)
        if a[0] == "p" and b[0] == "p":
            out.append(sp.simplify(b[1] - a[1]))
        elif a[0] == "w" and b[0] == "w":
            # windows must have equal length: (size - lo - hi)
            if sp.simplify((a[1] + a[2]) - (b[1] + b[2])) != 0:
                out.append(("bad-window", ti.text, si.text))
            else:
                out.append(sp.simplify(b[1] - a[1]))
        elif a[0] == "u" and b[0] == "u":
            if sp.simplify((a[2] - a[1]) - (b[2] - b[1])) != 0:
                out.append(("bad-window", ti.text, si.text))
            else:
                out.append(sp.simplify(b[1] - a[1]))
        elif a[0] == "w" and b[0] == "p":
            # a constant source broadcast over a target window: offset depends on the position
            out.append(("broadcast", ti.text, si.text))
        elif a[0] == "p" and b[0] == "w":
            out.append(("bad-window", ti.text, si.text))
        elif a[0] == "w" and b[0] == "u" or a[0] == "u" and b[0] == "w":
            out.append(("mixed-window", ti.text, si.text))
        else:
            out.append(("?", ti.text, si.text))
    return out


def resolve_aranges(ex, store, coef):
    """Replace ARange symbols in a coefficient by the target index on the axis the arange is broadcast against."""
    ars = coef.atoms(ARange)
    if not ars:
        return coef
    tsyms = target_index_symbols(store)
    out = coef
    tl = store.target_labels
    tab_axes = [k for k, ix in enumerate(store.index) if ix.kind not in ("const", "var")]
    for ar in ars:
        aid = int(ar.args[0])
        info = ex.aranges[aid]
        if aid not in store.rhs.ar:
            raise AnalysisError(ex.rule, "cannot align an np.arange factor with the target", store.func.where(store.node))
        frm_right, lab = store.rhs.ar[aid]
        if lab.unit:
            out = out.subs(ar, info["start"] + lab.lo)
            continue
        if frm_right >= len(tl):
            raise AnalysisError(ex.rule, "np.arange factor is broadcast against no target axis", store.func.where(store.node))
        tlab = tl[len(tl) - 1 - frm_right]
        k = tab_axes[len(tl) - 1 - frm_right]
        tsym, tlo = tsyms[k][0], tsyms[k][1]
        if tlab.is_one() or tlab.unit:
            raise LabelMismatch(f"`{store.text}`: an np.arange factor spans an axis on which the target has a single entry", store.node, (("tab", "axis"),))
        s1, s2 = ex.size_of(lab), ex.size_of(tlab)
        if s1 is not None and s2 is not None and sp.simplify(s1 - s2) != 0:
            raise LabelMismatch(f"`{store.text}`: an np.arange factor of length {s1} is broadcast against a target axis of length {s2}", store.node, (("tab", "axis"),))
        # entry p of the window: arange value = start + lab.lo + p ; target index = tlo + p
        out = out.subs(ar, info["start"] + lab.lo + (tsym - tlo))
    return out
