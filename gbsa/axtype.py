"""AXTYPE: axis-provenance abstract interpretation of the numpy subset gbasis uses (DESIGN 2.1).

Arrays are not numbers but typed axis tuples.  An axis is one of
    ('dim', tag)            tag e.g. ('M', shell, slot) ('L', shell, slot) ('S', shell, slot) ('K', shell)
                                      ('XYZ',) ('Pts',) ('Orb', pos, which) ('Bas', which)
    ('one',)                length-1 axis
    ('flat', (a1, .., ak))  row-major merge of adjacent axes (a1 slowest)
    ('cat', (a1, .., ak))   concatenation
    ('rest', id)            the opaque trailing axes a kernel appends (points, orders, xyz)
    ('restone',)            ones standing against ('rest', id) in a broadcast
Two axes are interchangeable only if their *size keys* (tags without slot) are equal.
"""
import ast
import itertools

from .astutil import dotted
from .report import AnalysisError


class AxTypeError(Exception):
    """The program is ill-typed in the provenance domain: this is a finding, not an analysis failure."""

    def __init__(self, msg, node=None, expected=None, found=None):
        super().__init__(msg)
        self.msg = msg
        self.node = node
        self.expected = expected
        self.found = found


class Raised(Exception):
    """The analysed code executed a `raise` on this (concrete) path."""

    def __init__(self, node):
        self.node = node


# ------------------------------------------------------------------------------------------- axes
ONE = ("one",)
RESTONE = ("restone",)


def dim(*tag):
    return ("dim", tuple(tag))


def size_key(ax):
    k = ax[0]
    if k == "dim":
        t = ax[1]
        if t[0] in ("M", "L", "S"):
            return (t[0], t[1])
        if t[0] == "Orb":
            return ("Orb", t[2] if len(t) > 2 else None)
        return t
    if k == "one":
        return ("one",)
    if k == "flat":
        return ("flat",) + tuple(size_key(a) for a in ax[1])
    if k == "cat":
        return ("cat",) + tuple(size_key(a) for a in ax[1])
    if k == "rest":
        return ("rest", ax[1])
    if k == "restone":
        return ("restone",)
    raise AnalysisError("AXTYPE", f"unknown axis {ax}")


def show_axis(ax):
    k = ax[0]
    if k == "dim":
        t = ax[1]
        if t[0] in ("M", "L", "S") and len(t) == 3:
            return f"{t[0]}[{t[1]}{'' if t[2] is None else '@' + str(t[2])}]"
        if t[0] == "basis":
            return f"BasisAxis{t[1]}"
        if t[0] == "Orb":
            return f"Orb[{'?' if t[1] is None else t[1]}:{t[2]}]"
        return t[0] + ("[" + ",".join(str(x) for x in t[1:]) + "]" if len(t) > 1 else "")
    if k == "one":
        return "1"
    if k == "flat":
        return "(" + "*".join(show_axis(a) for a in ax[1]) + ")"
    if k == "cat":
        return "Cat[" + " ++ ".join(show_axis(a) for a in ax[1]) + "]"
    if k == "rest":
        return "..."
    if k == "restone":
        return "1..."
    return str(ax)


def show_axes(axes):
    return "(" + ", ".join(show_axis(a) for a in axes) + ")"


class Size:
    """Entry of a `.shape` tuple: remembers the axes it measures (a product for Size*Size)."""

    def __init__(self, axes):
        self.axes = tuple(axes)

    def __mul__(self, o):
        if isinstance(o, Size):
            return Size(self.axes + o.axes)
        if o == 1:
            return self
        raise AnalysisError("AXTYPE", "Size * int not modelled")

    __rmul__ = __mul__

    def __repr__(self):
        return "|" + "*".join(show_axis(a) for a in self.axes) + "|"


class RestShape:
    def __init__(self, rid):
        self.rid = rid

    def __repr__(self):
        return "|...|"


class RestOnes:
    def __repr__(self):
        return "1..."


class Shell:
    def __init__(self, name, coord_type=None):
        self.name = name
        self.coord_type = coord_type

    def __repr__(self):
        return self.name


class Arr:
    def __init__(self, axes, content=None, history=(), dtype="float", conj=False):
        self.axes = tuple(axes)
        self.content = content
        self.history = tuple(history)
        self.dtype = dtype
        self.conj = conj

    def with_(self, **kw):
        d = dict(axes=self.axes, content=self.content, history=self.history, dtype=self.dtype, conj=self.conj)
        d.update(kw)
        return Arr(**d)

    @property
    def ndim_known(self):
        return not (self.axes and self.axes[-1][0] in ("rest", "restone"))

    def __repr__(self):
        return f"Arr{show_axes(self.axes)}"


class Grid:
    """np.zeros(shape, dtype=object): a table of blocks."""

    def __init__(self, shape, cells=None, perm=None):
        self.shape = tuple(shape)
        self.cells = cells if cells is not None else {}
        self.perm = perm  # axis permutation of a transposed view

    def _idx(self, idx):
        if self.perm is None:
            return tuple(idx)
        out = [None] * len(idx)
        for k, p in enumerate(self.perm):
            out[p] = idx[k]
        return tuple(out)

    def get(self, idx):
        return self.cells.get(self._idx(idx), 0)

    def set(self, idx, v):
        self.cells[self._idx(idx)] = v

    @property
    def T(self):
        n = len(self.shape)
        perm = tuple(reversed(range(n))) if self.perm is None else tuple(reversed(self.perm))
        return Grid(tuple(reversed(self.shape)), self.cells, perm)

    def rows(self):
        """Iteration over the first axis: sub-grids (or the list of cells for a 1-D remainder)."""
        n = self.shape[0]
        if len(self.shape) == 1:
            return [self.get((i,)) for i in range(n)]
        out = []
        for i in range(n):
            out.append(SubGrid(self, (i,)))
        return out


class SubGrid:
    def __init__(self, grid, prefix):
        self.grid = grid
        self.prefix = prefix

    def rows(self):
        rem = self.grid.shape[len(self.prefix):]
        if len(rem) == 1:
            return [self.grid.get(self.prefix + (i,)) for i in range(rem[0])]
        return [SubGrid(self.grid, self.prefix + (i,)) for i in range(rem[0])]


class IdxList:
    """np.triu_indices(n) / np.tril_indices(n): list of index tuples in numpy's (row-major) order."""

    def __init__(self, idx):
        self.idx = list(idx)


# ------------------------------------------------------------------------------------------- numpy transfer functions
def _norm_axis(i, n, node=None):
    if not isinstance(i, int):
        raise AnalysisError("AXTYPE", f"non-constant axis index {i!r}")
    if i < 0:
        i += n
    if not 0 <= i < n:
        raise AxTypeError(f"axis {i} out of range for an array with {n} axes", node)
    return i


def explicit_axes(a, upto=None):
    """Number of explicit (non-rest) axes."""
    return len(a.axes) - (0 if a.ndim_known else 1)


def swapaxes(a, i, j, node=None):
    n = explicit_axes(a)
    if (i < 0 or j < 0) and not a.ndim_known:
        raise AnalysisError("AXTYPE", "negative axis index on an array with opaque trailing axes")
    i, j = _norm_axis(i, n, node), _norm_axis(j, n, node)
    ax = list(a.axes)
    ax[i], ax[j] = ax[j], ax[i]
    return a.with_(axes=ax)


def transpose(a, perm=None, node=None):
    n = explicit_axes(a)
    if perm is None:
        if not a.ndim_known:
            raise AnalysisError("AXTYPE", "full transpose of an array with opaque trailing axes")
        perm = tuple(reversed(range(n)))
    perm = tuple(perm)
    if not a.ndim_known or sorted(perm) != list(range(n)):
        if sorted(perm) != list(range(len(perm))):
            raise AxTypeError(f"transpose permutation {perm} is not a permutation", node)
        if len(perm) != n:
            raise AxTypeError(f"transpose permutation {perm} has {len(perm)} entries for an array with {n} axes "
                              f"{show_axes(a.axes)}", node)
    return a.with_(axes=[a.axes[p] for p in perm] + ([] if a.ndim_known else [a.axes[-1]]))


def moveaxis(a, src, dst, node=None):
    n = explicit_axes(a)
    srcs = [src] if isinstance(src, int) else list(src)
    dsts = [dst] if isinstance(dst, int) else list(dst)
    if any(x < 0 for x in srcs + dsts) and not a.ndim_known:
        raise AnalysisError("AXTYPE", "negative axis index on an array with opaque trailing axes")
    srcs = [_norm_axis(x, n, node) for x in srcs]
    dsts = [_norm_axis(x, n, node) for x in dsts]
    order = [k for k in range(n) if k not in srcs]
    for d, s in sorted(zip(dsts, srcs)):
        order.insert(d, s)
    return a.with_(axes=[a.axes[p] for p in order] + ([] if a.ndim_known else [a.axes[-1]]))


def contract_ok(ax_a, ax_b):
    ka, kb = size_key(ax_a), size_key(ax_b)
    if ka == kb:
        return True
    # a transformation matrix's 'Bas' axis contracts with an assembled basis axis
    if ax_a[0] == "dim" and ax_a[1][0] == "Bas" and ax_b[0] == "dim" and ax_b[1][0] == "basis":
        return True
    return False


def tensordot(a, b, axes, node=None):
    if isinstance(axes, int):
        raise AnalysisError("AXTYPE", "tensordot with integer axes not modelled")
    ia, ib = axes
    ias = [ia] if isinstance(ia, int) else list(ia)
    ibs = [ib] if isinstance(ib, int) else list(ib)
    na, nb = explicit_axes(a), explicit_axes(b)
    if not a.ndim_known:
        raise AnalysisError("AXTYPE", "tensordot with an opaque-rank first operand")
    ias = [_norm_axis(i, na, node) for i in ias]
    if any(j < 0 for j in ibs) and not b.ndim_known:
        raise AnalysisError("AXTYPE", "negative axis index on an array with opaque trailing axes")
    ibs = [_norm_axis(j, nb, node) for j in ibs]
    hist = list(b.history) if b.content is not None and (a.content is None or a.content[0] in ("transform", "ext", "attr", "identity")) else list(a.history)
    main = b if (a.content is None or a.content[0] in ("transform", "ext", "attr", "identity")) else a
    other = a if main is b else b
    new_axes_a = [x for k, x in enumerate(a.axes) if k not in ias]
    new_axes_b = [x for k, x in enumerate(b.axes) if k not in ibs]
    for i, j in zip(ias, ibs):
        xa, xb = a.axes[i], b.axes[j]
        if not contract_ok(xa, xb) and not contract_ok(xb, xa):
            raise AxTypeError(f"tensordot contracts axis {i} {show_axis(xa)} of {show_axes(a.axes)} with axis {j} "
                              f"{show_axis(xb)} of {show_axes(b.axes)}", node, expected="equal provenance", found=(show_axis(xa), show_axis(xb)))
        # cartesian -> spherical transformation: S axis inherits the slot of the contracted L axis
        if other.content is not None and other.content[0] == "transform":
            s = other.content[1]
            xm = xb if main is b else xa
            if not (xm[0] == "dim" and xm[1][0] == "L" and xm[1][1] == s):
                raise AxTypeError(f"the Cartesian->spherical matrix of shell {s} is contracted with {show_axis(xm)}", node)
            slot = xm[1][2]
            tgt = new_axes_a if other is a else new_axes_b
            for k, x in enumerate(tgt):
                if x[0] == "dim" and x[1][0] == "S" and x[1][1] == s and x[1][2] is None:
                    tgt[k] = dim("S", s, slot)
            hist.append(("sph", s, slot))
            # factors that were multiplied into the transformation matrix travel with it
            for h in other.history:
                hist.append((h[0], h[1], h[2], slot) + tuple(h[4:]) + (("via-transform",),) if h[0] == "mul" else ("via-transform",) + tuple(h))
        elif other.content is not None and other.content[0] == "ext" and xb[0] == "dim" and xb[1][0] == "basis":
            pos = xb[1][1]
            which = other.content[1]
            for k, x in enumerate(new_axes_a):
                if x[0] == "dim" and x[1][0] == "Orb":
                    new_axes_a[k] = dim("Orb", pos, which)
            hist.append(("lincomb", pos, which))
    dt = "complex" if "complex" in (a.dtype, b.dtype) else a.dtype
    return Arr(new_axes_a + new_axes_b, main.content, hist, dt, main.conj)


def concat_array(a, axis, node=None):
    """np.concatenate(ndarray, axis=0): iterate over axis 0 and join the pieces along `axis` of the pieces."""
    if axis != 0:
        raise AnalysisError("AXTYPE", "np.concatenate(ndarray, axis!=0) not modelled")
    if explicit_axes(a) < 2:
        raise AxTypeError(f"np.concatenate over an array with axes {show_axes(a.axes)}", node)
    a0, a1 = a.axes[0], a.axes[1]
    parts = (a0[1] if a0[0] == "flat" else (a0,)) + (a1[1] if a1[0] == "flat" else (a1,))
    return a.with_(axes=[("flat", tuple(parts))] + list(a.axes[2:]))


def concat_list(arrs, axis, node=None):
    arrs = list(arrs)
    if not arrs:
        raise AxTypeError("np.concatenate of an empty list", node)
    for x in arrs:
        if not isinstance(x, Arr):
            raise AxTypeError(f"np.concatenate over a list containing {x!r} (a grid cell that was never assigned?)", node)
    n = explicit_axes(arrs[0])
    axis = _norm_axis(axis, n, node)
    for x in arrs[1:]:
        if explicit_axes(x) != n or x.ndim_known != arrs[0].ndim_known:
            raise AxTypeError("np.concatenate over arrays of different rank", node)
        for k in range(len(x.axes)):
            if k != axis and size_key(x.axes[k]) != size_key(arrs[0].axes[k]):
                err = AxTypeError(f"np.concatenate(axis={axis}): axis {k} differs between parts: "
                                  f"{show_axis(arrs[0].axes[k])} vs {show_axis(x.axes[k])}", node,
                                  expected=show_axes(arrs[0].axes), found=show_axes(x.axes))
                err.mismatch = (arrs[0].axes[k], x.axes[k])
                raise err
    parts = []
    for x in arrs:
        ax = x.axes[axis]
        parts.extend(ax[1] if ax[0] == "cat" else (ax,))
    axes = list(arrs[0].axes)
    axes[axis] = ("cat", tuple(parts))
    dt = "complex" if any(x.dtype == "complex" for x in arrs) else arrs[0].dtype
    return Arr(axes, ("cat", axis, tuple(arrs)), (), dt, False)


def reshape(a, targets, node=None):
    """targets: ints (1 / -1), Size, RestShape, RestOnes."""
    src = [x for x in a.axes if x != ONE]
    out = []
    pos = 0

    def flatten(ax):
        return list(ax[1]) if ax[0] == "flat" else [ax]

    # expand source flats lazily: work on a list of atomic axes with grouping info
    atoms = []
    for x in src:
        atoms.append(x)
    tlist = list(targets)
    n_minus = sum(1 for t in tlist if isinstance(t, int) and t == -1)
    if n_minus > 1:
        raise AxTypeError("reshape with more than one -1", node)
    for ti, t in enumerate(tlist):
        if isinstance(t, int) and t == 1:
            out.append(ONE)
        elif isinstance(t, RestOnes):
            out.append(RESTONE)
        elif isinstance(t, RestShape):
            if pos < len(atoms) and atoms[pos][0] == "rest":
                out.append(atoms[pos])
                pos += 1
            else:
                raise AxTypeError(f"reshape: trailing shape does not line up with the source axes {show_axes(a.axes)}", node)
        elif isinstance(t, int) and t == -1:
            # absorbs everything that the remaining targets do not need
            need_after = sum(len(x.axes) for x in tlist[ti + 1:] if isinstance(x, Size)) + \
                sum(1 for x in tlist[ti + 1:] if isinstance(x, RestShape))
            take = atoms[pos: len(atoms) - need_after]
            if not take:
                raise AxTypeError("reshape: -1 has nothing to absorb", node)
            pos += len(take)
            flat = []
            for x in take:
                flat.extend(flatten(x))
            out.append(take[0] if len(take) == 1 else ("flat", tuple(flat)))
        elif isinstance(t, Size):
            want = [size_key(x) for x in t.axes]
            # case 1: next source atom is exactly this (possibly flat) axis
            if pos < len(atoms) and [size_key(y) for y in flatten(atoms[pos])] == [k for x in t.axes for k in [size_key(y) for y in flatten(x)]] :
                out.append(atoms[pos])
                pos += 1
                continue
            # case 2: product of the next k adjacent source atoms
            got = []
            take = []
            p = pos
            wantflat = [size_key(y) for x in t.axes for y in flatten(x)]
            while p < len(atoms) and len(got) < len(wantflat):
                got.extend(size_key(y) for y in flatten(atoms[p]))
                take.append(atoms[p])
                p += 1
            if got == wantflat:
                flat = []
                for x in take:
                    flat.extend(flatten(x))
                out.append(("flat", tuple(flat)))
                pos = p
                continue
            # case 3: splitting a flat source axis
            if pos < len(atoms) and atoms[pos][0] == "flat":
                parts = list(atoms[pos][1])
                if [size_key(y) for y in parts[: len(wantflat)]] == wantflat:
                    head, tail = parts[: len(wantflat)], parts[len(wantflat):]
                    out.append(head[0] if len(head) == 1 else ("flat", tuple(head)))
                    if tail:
                        atoms[pos] = tail[0] if len(tail) == 1 else ("flat", tuple(tail))
                    else:
                        pos += 1
                    continue
            nxt = show_axis(atoms[pos]) if pos < len(atoms) else "nothing"
            raise AxTypeError(f"reshape target size {t} does not match source axis {nxt} of {show_axes(a.axes)} "
                              f"(sizes taken from another array's shape must belong to the same shell)", node,
                              expected=str(t), found=nxt)
        else:
            raise AnalysisError("AXTYPE", f"reshape target {t!r} not modelled")
    if pos != len(atoms):
        raise AxTypeError(f"reshape leaves source axes {show_axes(atoms[pos:])} of {show_axes(a.axes)} unmatched", node)
    return a.with_(axes=out)


def broadcast(a, b, node=None, what="elementwise operation"):
    """Result axes of a (op) b; every aligned pair must be equal-key or one of them length-1."""
    ax, bx = list(a.axes), list(b.axes)
    a_rest = bool(ax) and ax[-1][0] in ("rest", "restone")
    b_rest = bool(bx) and bx[-1][0] in ("rest", "restone")
    tail = []
    if a_rest or b_rest:
        if a_rest and b_rest:
            ra, rb = ax.pop(), bx.pop()
            if ra[0] == "rest" and rb[0] == "rest" and ra != rb:
                raise AxTypeError(f"{what} between arrays with different trailing axes", node)
            tail = [ra if ra[0] == "rest" else rb]
            if len(ax) != len(bx):
                raise AxTypeError(f"{what}: {show_axes(a.axes)} and {show_axes(b.axes)} do not line up", node)
        else:
            # one side has opaque trailing axes, the other must be a scalar-like / lower-rank array: not used by gbasis
            raise AnalysisError("AXTYPE", f"{what} between {show_axes(a.axes)} and {show_axes(b.axes)} (opaque rank vs fixed rank)")
    n = max(len(ax), len(bx))
    ax = [ONE] * (n - len(ax)) + ax
    bx = [ONE] * (n - len(bx)) + bx
    out = []
    for k, (x, y) in enumerate(zip(ax, bx)):
        if x == ONE:
            out.append(y)
        elif y == ONE:
            out.append(x)
        elif size_key(x) == size_key(y):
            out.append(x)
        else:
            raise AxTypeError(f"{what} aligns axis {k}: {show_axis(x)} of {show_axes(a.axes)} with {show_axis(y)} of "
                              f"{show_axes(b.axes)}", node, expected="equal provenance or length 1",
                              found=(show_axis(x), show_axis(y)))
    return out + tail


def shells_of_axis(ax):
    """Multiset (sorted tuple) of shell names whose M/L/S axes make up this axis."""
    out = []

    def rec(a):
        if a[0] == "dim":
            if a[1][0] in ("M", "L", "S"):
                out.append(a[1][1])
        elif a[0] in ("flat", "cat"):
            for x in a[1]:
                rec(x)
    rec(ax)
    return tuple(sorted(out))
