"""Behaviour-preserving edits: EVERY claimed check must stay silent (exit 0) on each.  Run: python3 selftest/benign.py [--only id,id]"""
import os, sys, shutil, subprocess, tempfile, json
from concurrent.futures import ThreadPoolExecutor
HERE = os.path.dirname(os.path.abspath(__file__)); VERIF = os.path.dirname(HERE)
B = []
def E(id, file, old, new, count=1):
    B.append(dict(id=id, file=file, old=old, new=new, count=count))

MI = "gbasis/integrals/_moment_int.py"
E("mi-sqrt-pow", MI, "np.sqrt(np.pi / exps_sum) * np.exp(", "(np.pi / exps_sum) ** 0.5 * np.exp(")
E("mi-commute", MI, "rel_coord_a * integrals[0, 0, i, :, :, :] + (\n            i * integrals[0, 0, i - 1, :, :, :] / (2 * exps_sum)\n        )",
  "(\n            i * integrals[0, 0, i - 1, :, :, :] / (2 * exps_sum)\n        ) + integrals[0, 0, i, :, :, :] * rel_coord_a")
E("mi-half-over-p", MI, "    harm_mean = exps_a * exps_b / exps_sum\n", "    harm_mean = exps_a * exps_b / exps_sum\n    half_inv = 0.5 / exps_sum\n")
E("mi-rename-local", MI, "rel_coord_moment", "rel_c_mom", count=0)
E("mi-comments", MI, "    # start of recursion\n", "    # start of recursion\n    # (Obara-Saika; see Helgaker et al.)\n\n\n")
OV = "gbasis/integrals/overlap.py"
E("ov-cutoff-pow", OV, "cutoff = np.sqrt(-(alpha_a + alpha_b) / (alpha_a * alpha_b) * np.log(tol_screen))", "cutoff = (-(alpha_a + alpha_b) / (alpha_a * alpha_b) * np.log(tol_screen)) ** 0.5")
E("ov-coordtype-simple", OV, "coord_type = [ct for ct in [shell.coord_type for shell in basis]]", "coord_type = [shell.coord_type for shell in basis]")
E("ov-extra-validation", OV, "    coord_type = [ct for ct in [shell.coord_type for shell in basis]]\n", "    if not isinstance(basis, (list, tuple)):\n        raise TypeError(\"`basis` must be a list or tuple of shells.\")\n    coord_type = [ct for ct in [shell.coord_type for shell in basis]]\n")
KE = "gbasis/integrals/kinetic_energy.py"
E("ke-sum-method", KE, "return -0.5 * np.sum(output, axis=0)", "return -0.5 * output.sum(axis=0)")
E("ke-half-var", KE, "return -0.5 * np.sum(output, axis=0)", "total = np.sum(output, axis=0)\n        return -0.5 * total")
DEN = "gbasis/evals/density.py"
E("den-sum-method", DEN, "    density = np.sum(density, axis=0)\n    return density\n", "    return density.sum(axis=0)\n")
E("den-rename-output", DEN, "    output = evaluate_density_using_evaluated_orbs(one_density_matrix, orb_eval)\n    # Fix #117: check magnitude of small negative density values, then use clip to remove them\n    min_output = np.min(output)\n    if min_output < 0.0 and abs(min_output) > threshold:\n        raise ValueError(f\"Found negative density <= {-threshold}, got {min_output}.\")\n    return output.clip(min=0.0)\n",
  "    rho = evaluate_density_using_evaluated_orbs(one_density_matrix, orb_eval)\n    lowest = rho.min()\n    if lowest < 0.0 and -lowest > threshold:\n        raise ValueError(f\"Found negative density <= {-threshold}, got {lowest}.\")\n    return np.clip(rho, 0.0, None)\n")
ESP = "gbasis/evals/electrostatic_potential.py"
E("esp-dist-sqrt", ESP, "dist = np.sum((points[:, :, None] - nuclear_coords.T[None, :, :]) ** 2, axis=1) ** 0.5", "dist = np.sqrt(np.sum((points[:, :, None] - nuclear_coords.T[None, :, :]) ** 2, axis=1))")
E("esp-linalg-norm", ESP, "dist = np.sum((points[:, :, None] - nuclear_coords.T[None, :, :]) ** 2, axis=1) ** 0.5", "dist = np.linalg.norm(points[:, :, None] - nuclear_coords.T[None, :, :], axis=1)")
PA = "gbasis/parsers.py"
E("pa-pattern-var", PA, '    data = re.split(r"\\n\\s*(\\w[\\w]?)[ ]+(\\w+)\\s*\\n", "\\n" + nwchem_basis)\n', '    header = r"\\n\\s*(\\w[\\w]?)[ ]+(\\w+)\\s*\\n"\n    data = re.split(header, "\\n" + nwchem_basis)\n')
E("pa-encoding", PA, '    with open(nwchem_basis_file, "r") as basis_fh:', '    with open(nwchem_basis_file, "r", encoding="utf-8") as basis_fh:')
B1 = "gbasis/base_one.py"
E("b1-tensordot-kw", B1, "matrix_contraction = np.tensordot(transform, matrix_contraction, (1, 1))", "matrix_contraction = np.tensordot(transform, matrix_contraction, axes=(1, 1))")
B2 = "gbasis/base_two_symm.py"
E("b2-conj-method", B2, "np.conjugate(", "np.conj(", count=0)
CT = "gbasis/contractions.py"
E("ct-normcont-two-steps", CT, '        self.norm_cont = np.einsum("ijij->ij", Overlap.construct_array_contraction(self, self))\n        self.norm_cont **= -0.5\n',
  '        self_overlap = Overlap.construct_array_contraction(self, self)\n        self.norm_cont = 1.0 / np.sqrt(np.einsum("ijij->ij", self_overlap))\n')
ST = "gbasis/evals/stress_tensor.py"
E("st-comment", ST, "def evaluate_stress_tensor(", "# stress tensor of Anderson et al.\ndef evaluate_stress_tensor(")
PC = "gbasis/integrals/point_charge.py"
E("pc-boys-kw", PC, "hyp1f1(orders + 1 / 2, orders + 3 / 2, -weighted_dist)", "hyp1f1(orders + 0.5, orders + 1.5, -weighted_dist)")
DV = "gbasis/evals/_deriv.py"
E("dv-rename", DV, "nonzero_coords", "dx", count=0)


def apply(root, m):
    p = os.path.join(root, m["file"]); s = open(p).read()
    if m["old"] not in s: return False
    s = s.replace(m["old"], m["new"]) if m["count"] == 0 else s.replace(m["old"], m["new"], m["count"])
    open(p, "w").write(s)
    try: compile(s, p, "exec")
    except SyntaxError: return False
    return True

def run(m):
    d = tempfile.mkdtemp(prefix="gbsa-benign.")
    try:
        shutil.copytree("/repo/gbasis", os.path.join(d, "gbasis"))
        if "patch" in m:
            r = subprocess.run(["patch", "-s", "-p1", "-i", m["patch"]], cwd=d, capture_output=True, text=True)
            if r.returncode: return m, None
        elif not apply(d, m): return m, None
        out = {}
        for c in CLAIMED:
            r = subprocess.run([os.path.join(VERIF, "check"), c, "--repo", d, "--no-evidence"], capture_output=True, text=True)
            if r.returncode:
                line = [l for l in r.stdout.split("\n") if ": [" in l or "ANALYSIS-ERROR" in l][:1]
                out[c] = (r.returncode, (line[0] if line else "")[:230])
        return m, out
    finally:
        shutil.rmtree(d, ignore_errors=True)

if __name__ == "__main__":
    CLAIMED = [c["property_id"] for c in json.load(open(os.path.join(VERIF, "MANIFEST.json")))["checks"]]
    only = None
    if "--only" in sys.argv: only = set(sys.argv[sys.argv.index("--only") + 1].split(","))
    pdir = os.path.join(VERIF, "seeded", "benign")
    if os.path.isdir(pdir):
        for fn in sorted(os.listdir(pdir)):
            if fn.endswith(".diff"):
                B.append(dict(id="agent-" + fn[:-5], patch=os.path.join(pdir, fn)))
    items = [m for m in B if not only or m["id"] in only]
    bad = 0
    with ThreadPoolExecutor(max_workers=int(os.environ.get("GBSA_JOBS", "8"))) as ex:
        for m, out in ex.map(run, items):
            if out is None: print(f"{m['id']:24s} SKIP (anchor absent / syntax)"); continue
            if not out: print(f"{m['id']:24s} silent in all {len(CLAIMED)} checks"); continue
            for c, (rc, line) in sorted(out.items()):
                bad += 1
                print(f"{m['id']:24s} {c} rc={rc} {line}")
    print(f"benign: {len(items)} edits, {bad} non-silent (check, edit) pairs")
    sys.exit(1 if bad else 0)
