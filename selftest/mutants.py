"""One-edit variants of gbasis used by the firing self-test.  MUTANTS must be reported by the listed checks (exit 1),
BENIGN edits are behaviour-preserving and must leave the listed checks silent (exit 0)."""

MUTANTS = []
BENIGN = []


def M(id, file, old, new, checks):
    MUTANTS.append(dict(id=id, file=file, old=old, new=new, checks=checks.split(",")))


def OK(id, file, old, new, checks):
    BENIGN.append(dict(id=id, file=file, old=old, new=new, checks=checks.split(",")))


# ----------------------------------------------------------------------------------------------- C19 / effects
M("e1-inplace-coords", "gbasis/evals/_deriv.py", "    coords = coords - center\n", "    coords -= center\n", "C19")
M("e2-kernel-view", "gbasis/integrals/kinetic_energy.py", "        return -0.5 * np.sum(output, axis=0)",
  "        if contractions_one.angmom > 7:\n            return contractions_one.coeffs[:, None, :, None]\n        return -0.5 * np.sum(output, axis=0)", "C19")
M("e1-basis-sort", "gbasis/evals/density.py", "    orb_eval = evaluate_basis(basis, points, transform=transform)\n",
  "    basis.sort(key=lambda s: s.angmom)\n    orb_eval = evaluate_basis(basis, points, transform=transform)\n", "C19")
M("e4-seterr", "gbasis/evals/electrostatic_potential.py", '    with np.errstate(divide="ignore"):\n', '    old = np.seterr(divide="ignore")\n    if True:\n', "C19")
M("e1-normcont-assembly", "gbasis/base_one.py", "            matrices.append(np.concatenate(array, axis=0))",
  "            contraction.norm_cont = contraction.norm_cont * 1.0\n            matrices.append(np.concatenate(array, axis=0))", "C19")
M("e1-orb-eval", "gbasis/evals/density.py", "    density = one_density_matrix.dot(orb_eval)\n    density *= orb_eval\n",
  "    orb_eval *= one_density_matrix.dot(orb_eval)\n    density = orb_eval\n", "C19")
M("e1-pop", "gbasis/parsers.py", "    coord_types = iter(coord_types)\n    for icenter, (atom, coord) in enumerate(zip(atoms, coords)):\n        for angmom, exps, coeffs in basis_dict[atom]:\n            basis.append(\n                GeneralizedContractionShell(\n                    angmom,\n                    coord,\n                    coeffs,\n                    exps,\n                    next(coord_types),\n",
  "    for icenter, (atom, coord) in enumerate(zip(atoms, coords)):\n        for angmom, exps, coeffs in basis_dict[atom]:\n            basis.append(\n                GeneralizedContractionShell(\n                    angmom,\n                    coord,\n                    coeffs,\n                    exps,\n                    coord_types.pop(0),\n", "C19,C18")

# ----------------------------------------------------------------------------------------------- C14
ESP = "gbasis/evals/electrostatic_potential.py"
M("esp-le", ESP, "external_potential[dist < threshold_dist] = 0", "external_potential[dist <= threshold_dist] = 0", "C14")
M("esp-charge-mask", ESP, "external_potential[dist < threshold_dist] = 0", "external_potential[dist / np.abs(nuclear_charges[None, :]) < threshold_dist] = 0", "C14")
M("esp-pot-mask", ESP, "external_potential[dist < threshold_dist] = 0", "external_potential[external_potential > 1.0 / np.array(threshold_dist)] = 0", "C14")
M("esp-no-transform", ESP, "        basis, points, -np.ones(points.shape[0]), transform=transform\n", "        basis, points, -np.ones(points.shape[0])\n", "C14")
M("esp-plus-charge", ESP, "        basis, points, -np.ones(points.shape[0]), transform=transform\n", "        basis, points, np.ones(points.shape[0]), transform=transform\n", "C14")
M("esp-ghost-filter-pos", ESP, "    hartree_potential = np.sum(hartree_potential, axis=(0, 1))\n",
  "    hartree_potential = np.sum(hartree_potential, axis=(0, 1))\n    keep = nuclear_charges > 0\n    nuclear_coords = nuclear_coords[keep]\n    nuclear_charges = nuclear_charges[keep]\n", "C14")
OK("esp-ghost-filter-nonzero", ESP, "    hartree_potential = np.sum(hartree_potential, axis=(0, 1))\n",
   "    hartree_potential = np.sum(hartree_potential, axis=(0, 1))\n    keep = nuclear_charges != 0\n    nuclear_coords = nuclear_coords[keep]\n    nuclear_charges = nuclear_charges[keep]\n", "C14")
M("esp-sign", ESP, "    return -(external_potential + hartree_potential)", "    return -(external_potential - hartree_potential)", "C14")
M("esp-size-notransform", ESP, "    if transform is not None:\n        # the density matrix", "    if False:\n        # the density matrix", "C14")
M("esp-size-axis", ESP, "        if transform.shape[0] != one_density_matrix.shape[0]:", "        if transform.shape[1] != one_density_matrix.shape[0]:", "C14")
M("esp-dist-l1", ESP, "    dist = np.sum((points[:, :, None] - nuclear_coords.T[None, :, :]) ** 2, axis=1) ** 0.5",
  "    dist = np.sum(np.abs(points[:, :, None] - nuclear_coords.T[None, :, :]), axis=1)", "C14")
M("esp-2thr", ESP, "external_potential[dist < threshold_dist] = 0", "external_potential[dist < 2 * threshold_dist] = 0", "C14")
OK("esp-where", ESP, "        external_potential[dist < threshold_dist] = 0", "        external_potential = np.where(dist < threshold_dist, 0, external_potential)", "C14")

# ----------------------------------------------------------------------------------------------- C20
OV = "gbasis/integrals/overlap.py"
M("scr-max", OV, "    alpha_a = min(contractions_one.exps)", "    alpha_a = max(contractions_one.exps)", "C20")
M("scr-wrong-shell", OV, "    alpha_b = min(contractions_two.exps)", "    alpha_b = min(contractions_one.exps)", "C20,C11")
M("scr-ge", OV, "    return np.linalg.norm(r_12) > cutoff", "    return np.linalg.norm(r_12) >= cutoff", "C20")
M("scr-lt", OV, "    return np.linalg.norm(r_12) > cutoff", "    return np.linalg.norm(r_12) < cutoff", "C20")
M("scr-formula", OV, "np.sqrt(-(alpha_a + alpha_b) / (alpha_a * alpha_b) * np.log(tol_screen))", "np.sqrt(-(alpha_a * alpha_b) / (alpha_a + alpha_b) * np.log(tol_screen))", "C20")
M("scr-log10", OV, "* np.log(tol_screen))", "* np.log10(tol_screen))", "C20")
M("scr-zero-sph", OV, "                    len(contractions_two.norm_prim_cart),", "                    contractions_two.num_sph,", "C20")
M("scr-zero-seg", OV, "                    contractions_two.num_seg_cont,", "                    contractions_one.num_seg_cont,", "C20")
M("scr-kw-sph", OV, "        return Overlap(basis).construct_array_spherical(**kwargs)", "        return Overlap(basis).construct_array_spherical()", "C20,C09")
M("scr-dist-sum", OV, "    r_12 = contractions_two.coord - contractions_one.coord", "    r_12 = contractions_two.coord + contractions_one.coord", "C20")
M("scr-last-exp", OV, "    alpha_a = min(contractions_one.exps)", "    alpha_a = contractions_one.exps[-1]", "C20")
OK("scr-not-tol", OV, "    if tol_screen is None:\n        return False", "    if not tol_screen:\n        return False", "C20")

# ----------------------------------------------------------------------------------------------- C09 / C11 assembly
B2 = "gbasis/base_two_symm.py"
M("asm-swap-pair", B2, "                block = np.swapaxes(np.swapaxes(block, 0, 1), 1, 2)\n                block = np.concatenate(block, axis=0)\n                block = np.swapaxes(block, 0, 1)\n                # array now has shape (M_1 L_1, M_2 L_2, ...)\n                triu_blocks.append(block)",
  "                block = np.swapaxes(np.swapaxes(block, 0, 1), 0, 2)\n                block = np.concatenate(block, axis=0)\n                block = np.swapaxes(block, 0, 1)\n                # array now has shape (M_1 L_1, M_2 L_2, ...)\n                triu_blocks.append(block)", "C09")
M("asm-tensordot-axis", B2, "                block_sph = np.tensordot(transform_one, block_sph, (1, 1))", "                block_sph = np.tensordot(transform_one, block_sph, (1, 0))", "C09")
M("asm-transform-shell", B2, "                transform_two = generate_transformation(\n                    cont_two.angmom,\n                    cont_two.angmom_components_cart,",
  "                transform_two = generate_transformation(\n                    cont_two.angmom,\n                    cont_one.angmom_components_cart,", "C09")
M("asm-norm-shell", B2, "                block_sph *= cont_two.norm_cont.reshape(", "                block_sph *= cont_one.norm_cont.reshape(", "C09")
M("asm-lmajor", B2, "                block_sph = np.concatenate(np.swapaxes(block_sph, 0, 1), axis=0)", "                block_sph = np.concatenate(block_sph, axis=0)", "C09")
M("asm-kwargs-lincomb", B2, "            array = self.construct_array_spherical(**kwargs)", "            array = self.construct_array_spherical()", "C09")
M("asm-lincomb-axis", B2, "        array = np.tensordot(transform, array, (1, 0))\n        array = np.tensordot(transform, array, (1, 1))",
  "        array = np.tensordot(transform, array, (0, 0))\n        array = np.tensordot(transform, array, (1, 1))", "C09")
M("asm-lincomb-noswap", B2, "        array = np.tensordot(transform, array, (1, 1))\n        array = np.swapaxes(array, 0, 1)", "        array = np.tensordot(transform, array, (1, 1))", "C09")
M("asm-mix-type", B2, "                if type_one == \"spherical\":\n                    # transform\n                    block = np.tensordot(transform_one, block, (1, 1))",
  "                if type_two == \"spherical\":\n                    # transform\n                    block = np.tensordot(transform_one, block, (1, 1))", "C09")
M("asm-noconj", B2, "            np.conjugate(np.swapaxes(block, 0, 1))\n            for block in all_blocks.T[np.tril_indices(num_blocks_side)]\n        ]\n        # concatenate\n        return np.concatenate(\n            [np.concatenate(row_blocks, axis=1) for row_blocks in all_blocks], axis=0\n        )\n\n    def construct_array_spherical",
  "            np.swapaxes(block, 0, 1)\n            for block in all_blocks.T[np.tril_indices(num_blocks_side)]\n        ]\n        # concatenate\n        return np.concatenate(\n            [np.concatenate(row_blocks, axis=1) for row_blocks in all_blocks], axis=0\n        )\n\n    def construct_array_spherical", "C11,C08")
B4 = "gbasis/base_four_symm.py"
M("asm4-perm", B4, "                all_blocks[k, l, j, i] = np.swapaxes(\n                    np.swapaxes(np.swapaxes(block, 1, 3), 0, 2), 2, 3\n                )",
  "                all_blocks[k, l, j, i] = np.swapaxes(\n                    np.swapaxes(np.swapaxes(block, 1, 3), 0, 2), 0, 1\n                )", "C11,C09")
M("asm4-skip-orbit", B4, "            for (k, cont_three), (l, cont_four) in pair_i_cont[pair_ind:]:\n                block = self.construct_array_contraction(\n                    cont_one, cont_two, cont_three, cont_four, **kwargs\n                )\n                # normalize contractions\n                block *= cont_one.norm_cont.reshape(*block.shape[:2], *[1 for _ in block.shape[2:]])\n                block *= cont_two.norm_cont.reshape(\n                    1, 1, *block.shape[2:4], *[1 for _ in block.shape[4:]]\n                )\n                block *= cont_three.norm_cont.reshape(\n                    1, 1, 1, 1, *block.shape[4:6], *[1 for _ in block.shape[6:]]\n                )\n                block *= cont_four.norm_cont.reshape(\n                    1, 1, 1, 1, 1, 1, *block.shape[6:8], *[1 for _ in block.shape[8:]]\n                )\n                # assume array always has shape",
  "            for (k, cont_three), (l, cont_four) in pair_i_cont[pair_ind + 1:]:\n                block = self.construct_array_contraction(\n                    cont_one, cont_two, cont_three, cont_four, **kwargs\n                )\n                # normalize contractions\n                block *= cont_one.norm_cont.reshape(*block.shape[:2], *[1 for _ in block.shape[2:]])\n                block *= cont_two.norm_cont.reshape(\n                    1, 1, *block.shape[2:4], *[1 for _ in block.shape[4:]]\n                )\n                block *= cont_three.norm_cont.reshape(\n                    1, 1, 1, 1, *block.shape[4:6], *[1 for _ in block.shape[6:]]\n                )\n                block *= cont_four.norm_cont.reshape(\n                    1, 1, 1, 1, 1, 1, *block.shape[6:8], *[1 for _ in block.shape[8:]]\n                )\n                # assume array always has shape", "C11,C09")
M("asm4-norm", B4, "                block *= cont_three.norm_cont.reshape(\n                    1, 1, 1, 1, *block.shape[4:6], *[1 for _ in block.shape[6:]]\n                )\n                block *= cont_four.norm_cont.reshape(\n                    1, 1, 1, 1, 1, 1, *block.shape[6:8], *[1 for _ in block.shape[8:]]\n                )\n                # assume array always has shape",
  "                block *= cont_four.norm_cont.reshape(\n                    1, 1, 1, 1, 1, 1, *block.shape[6:8], *[1 for _ in block.shape[8:]]\n                )\n                # assume array always has shape", "C09")
M("asm1-transform", "gbasis/base_one.py", "            matrix_contraction = np.tensordot(transform, matrix_contraction, (1, 1))\n            matrix_contraction = np.concatenate(np.swapaxes(matrix_contraction, 0, 1), axis=0)",
  "            matrix_contraction = np.tensordot(transform, matrix_contraction, (1, 1))\n            matrix_contraction = np.concatenate(matrix_contraction, axis=0)", "C09")
M("asma-order", "gbasis/base_two_asymm.py", "        if transform_one is not None:\n            array = np.tensordot(transform_one, array, (1, 0))", "        if transform_two is not None:\n            array = np.tensordot(transform_one, array, (1, 0))", "C09")

# ----------------------------------------------------------------------------------------------- C05
DV = "gbasis/evals/_deriv.py"
M("d2-4n-2", DV, "                * (4 * second_ang_comp[:, :, None] + 2)", "                * (4 * second_ang_comp[:, :, None] - 2)", "C05")
M("d2-nn1", DV, "            part2_3_n_2 = second_ang_comp * (second_ang_comp - 1)", "            part2_3_n_2 = 2 * (second_ang_comp - 1)", "C05")
M("d2-mask", DV, "    n_2_indices = second_ang_comp >= 2", "    n_2_indices = second_ang_comp > 2", "C05")
M("d1-clamp", DV, "    power_part_1[power_part_1 < 0] = 0\n    part1 = first_coords", "    part1 = first_coords", "C05")
M("gen-sign", DV, "            * (-(alphas**0.5)) ** indices_herm", "            * ((alphas**0.5)) ** indices_herm", "C05")
M("dir-order-class", DV, "    indices_second_deriv = orders == 2", "    indices_second_deriv = orders >= 2", "C05")
M("d1-n0-sign", DV, "        -2 * alphas[:, None, None, None] * (first_coords[:, None, :] ** array_ones[:, :, None])", "        2 * alphas[:, None, None, None] * (first_coords[:, None, :] ** array_ones[:, :, None])", "C05")
M("dir-shift", DV, "    new_coords = coords.T - center[None, :].T", "    new_coords = coords.T + center[None, :].T", "C05")
M("dir-guard", "gbasis/evals/eval_deriv.py", "            if np.any(orders > 2):", "            if np.any(orders > 3):", "C05")
OK("gen-clamp-only", DV, "        indices_angmom[indices_angmom < 0] = 0\n", "", "C05")

# ----------------------------------------------------------------------------------------------- C06 / C15
DN = "gbasis/evals/density.py"
M("dens-factor", DN, "            factor = 1\n        else:\n            factor = 2", "            factor = 2\n        else:\n            factor = 2", "C06")
M("dens-range", DN, "    for l_x in range(total_l_x // 2 + 1):", "    for l_x in range(total_l_x // 2):", "C06")
M("dens-hess-idx", DN, "                orders_one_two[j][i],", "                orders_one_two[i][j],", "C06")
M("dens-thr-ge", DN, "    if min_output < 0.0 and abs(min_output) > threshold:\n        raise ValueError(f\"Found negative density <= {-threshold}, got {min_output}.\")\n    return output.clip(min=0.0)",
  "    if min_output < 0.0 and abs(min_output) >= threshold:\n        raise ValueError(f\"Found negative density <= {-threshold}, got {min_output}.\")\n    return output.clip(min=0.0)", "C06")
M("dens-noclip", DN, "    return (0.5 * output).clip(min=0.0)", "    return 0.5 * output", "C06")
M("dens-nohalf", DN, "    return (0.5 * output).clip(min=0.0)", "    return output.clip(min=0.0)", "C06")
M("dens-lap-dens", DN, "        general_kinetic_energy_density += alpha * evaluate_density_laplacian(", "        general_kinetic_energy_density += alpha * evaluate_density(", "C06")
M("dens-fallback", DN, "                if any(orders_one > 2) or any(orders_two > 2):", "                if any(orders_one > 2):", "C06")
M("dens-grad-2", DN, "        output[ind] = 2 * 1 * np.sum(density, axis=0)", "        output[ind] = 1 * np.sum(density, axis=0)", "C06")
M("dens-einsum", DN, '    density_1 = np.einsum("ijkm,ijmk -> ijkm", zeroth_arr, raw_density_1)', '    density_1 = np.einsum("ijkm,ijkm -> ijkm", zeroth_arr, raw_density_1)', "C06")
M("dens-triu", DN, "    upp = np.triu(upp.T, 1)", "    upp = np.triu(upp.T, 0)", "C06")
M("dens-hess-table", DN, "            [[2, 0, 0], [1, 1, 0], [1, 0, 1]],", "            [[2, 0, 0], [1, 0, 1], [1, 0, 1]],", "C06")
OK("dens-hess-unused", DN, "            [[1, 1, 0], [0, 2, 0], [0, 1, 1]],", "            [[1, 0, 1], [0, 2, 0], [0, 1, 1]],", "C06")
ST = "gbasis/evals/stress_tensor.py"
M("st-guard", ST, "            if alpha != 0.5:\n                output[i] -= (1 - 2 * alpha) * evaluate_deriv_reduced_density_matrix(", "            if alpha != 1:\n                output[i] -= (1 - 2 * alpha) * evaluate_deriv_reduced_density_matrix(", "C15")
M("st-coef", ST, "                output[i, j] += (1 - alpha) * evaluate_deriv_reduced_density_matrix(\n                    orders_one + orders_two,", "                output[i, j] += (1 + alpha) * evaluate_deriv_reduced_density_matrix(\n                    orders_one + orders_two,", "C15")
M("st-nomirror", ST, "            output[j, i] = output[i, j]", "            pass", "C15")
M("st-layout", ST, "    return np.transpose(output, (2, 0, 1))", "    return np.transpose(output, (2, 1, 0))", "C15")
M("st-hess-orders", ST, "                        2 * orders_one + orders_three,\n                        orders_two,", "                        2 * orders_one + orders_two,\n                        orders_three,", "C15")
M("st-half", ST, "        output += np.swapaxes(output, 0, 1)\n        output /= 2", "        output += np.swapaxes(output, 0, 1)", "C15")

# ----------------------------------------------------------------------------------------------- kernels C01 C02 C03 C04 C07 C08
MI = "gbasis/integrals/_moment_int.py"
M("mom-sa-coef", MI, "            i * integrals[0, 0, i - 1, :, :, :] / (2 * exps_sum)", "            (i - 1) * integrals[0, 0, i - 1, :, :, :] / (2 * exps_sum)", "C01")
M("mom-sa-centre", MI, "    integrals[0, 0, 1:2, :, :, :] = rel_coord_a * integrals[0, 0, 0:1, :, :, :]", "    integrals[0, 0, 1:2, :, :, :] = rel_coord_b * integrals[0, 0, 0:1, :, :, :]", "C01")
M("mom-sb-irange", MI, "        i_range[0, 0:1, 1:, :, :, :] * integrals[0, 0:1, :-1, :, :, :] / (2 * exps_sum)\n    )\n    for j in range(1, angmom_b_max):",
  "        i_range[0, 0:1, :-1, :, :, :] * integrals[0, 0:1, :-1, :, :, :] / (2 * exps_sum)\n    )\n    for j in range(1, angmom_b_max):", "C01")
M("mom-sb-2p", MI, "            j * integrals[0, j - 1, 0, :, :, :] / (2 * exps_sum)", "            j * integrals[0, j - 1, 0, :, :, :] / (exps_sum)", "C01")
M("mom-gather-swap", MI, "        angmoms_b[np.newaxis, :, np.newaxis, :],\n        angmoms_a[np.newaxis, np.newaxis, :, :],", "        angmoms_a[np.newaxis, :, np.newaxis, :],\n        angmoms_b[np.newaxis, np.newaxis, :, :],", "C01,C07")
M("mom-tensordot", MI, "    integrals = np.tensordot(integrals * norm_a, coeffs_a, (4, 0))", "    integrals = np.tensordot(integrals * norm_a, coeffs_a, (3, 0))", "C01")
M("mom-transpose", MI, "    return np.transpose(integrals, (0, 3, 2, 4, 1))", "    return np.transpose(integrals, (0, 4, 2, 3, 1))", "C01,C07")
M("mom-no-normb", MI, "    integrals = np.tensordot(integrals * norm_b, coeffs_b, (3, 0))", "    integrals = np.tensordot(integrals, coeffs_b, (3, 0))", "C01")
M("mom-harm", MI, "    harm_mean = exps_a * exps_b / exps_sum", "    harm_mean = exps_a * exps_b / (2 * exps_sum)", "C01")
M("mom-wac", MI, "    coord_wac = (exps_a * coord_a + exps_b * coord_b) / exps_sum", "    coord_wac = (exps_b * coord_a + exps_a * coord_b) / exps_sum", "C01")
M("mom-se-k", MI, "            + k * integrals[k - 1, 1:, 1:, :, :, :]", "            + (k + 1) * integrals[k - 1, 1:, 1:, :, :, :]", "C07")
M("mom-se-origin", MI, "    rel_coord_moment = coord_wac - coord_moment", "    rel_coord_moment = coord_wac + coord_moment", "C07")
M("mom-se-jrange", MI, "            j_range[0, 1:, 0, :, :, :] * integrals[k, :-1, 0, :, :, :]", "            i_range[0, 0, 1:, :, :, :] * integrals[k, :-1, 0, :, :, :]", "C07")
M("moment-axis", "gbasis/integrals/moment.py", "        return np.transpose(output, (1, 2, 3, 4, 0))", "        return np.transpose(output, (2, 1, 3, 4, 0))", "C07")
CT = "gbasis/contractions.py"
M("normcont-power", CT, "        self.norm_cont **= -0.5", "        self.norm_cont **= -1", "C01")
M("normcont-diag", CT, '"ijij->ij"', '"ijji->ij"', "C01")
M("normprim-4a", CT, "            * ((4 * exponents) ** (self.angmom / 2))", "            * ((2 * exponents) ** (self.angmom / 2))", "C01")
DF = "gbasis/integrals/_diff_operator_int.py"
M("diff-2a", DF, "            2 * exps_a.squeeze(axis=0) * integrals[k, :, 2:, :, :, :]", "            exps_a.squeeze(axis=0) * integrals[k, :, 2:, :, :, :]", "C02,C08")
M("diff-sign", DF, "            - i_range[0, 0, 1:-1, :, :, :] * integrals[k, :, :-2, :, :, :]", "            + i_range[0, 0, 1:-1, :, :, :] * integrals[k, :, :-2, :, :, :]", "C02")
M("diff-pad", DF, "        angmom_a_max + order_diff_max,\n        exps_a,", "        angmom_a_max + order_diff_max - 1,\n        exps_a,", "C02")
M("diff-expsb", DF, "    integrals[1, :, 0, :, :, :] = 2 * exps_a.squeeze(axis=(0, 2)) * integrals[0, :, 1, :, :, :]", "    integrals[1, :, 0, :, :, :] = 2 * exps_b.squeeze(axis=(0, 1)) * integrals[0, :, 1, :, :, :]", "C02,C08")
M("diff-cut", DF, "    return integrals[:, :, : angmom_a_max + 1]", "    return integrals[:, :, : angmom_a_max + 2]", "C02")
KE = "gbasis/integrals/kinetic_energy.py"
M("kin-sign", KE, "        return -0.5 * np.sum(output, axis=0)", "        return 0.5 * np.sum(output, axis=0)", "C02")
M("kin-orders", KE, "            np.array([[2, 0, 0], [0, 2, 0], [0, 0, 2]]),", "            np.array([[2, 0, 0], [0, 2, 0], [0, 0, 1]]),", "C02")
M("kin-slot", KE, "            alphas_a,\n            coeffs_a,", "            alphas_b,\n            coeffs_a,", "C02")
OK("kin-row-order", KE, "            np.array([[2, 0, 0], [0, 2, 0], [0, 0, 2]]),", "            np.array([[0, 2, 0], [2, 0, 0], [0, 0, 2]]),", "C02")
M("mom-unit", "gbasis/integrals/momentum.py", "        return -1j * np.transpose(output, (1, 2, 3, 4, 0))", "        return 1j * np.transpose(output, (1, 2, 3, 4, 0))", "C08")
M("mom-orders", "gbasis/integrals/momentum.py", "            np.array([[1, 0, 0], [0, 1, 0], [0, 0, 1]]),", "            np.array([[0, 1, 0], [1, 0, 0], [0, 0, 1]]),", "C08")
AM = "gbasis/integrals/angular_momentum.py"
M("ang-comp", AM, "                    * diff_integrals[1, angmoms_b[:, None, 2], angmoms_a[None, :, 2], 2, :, :]\n                    - moment_integrals[1, angmoms_b[:, None, 2], angmoms_a[None, :, 2], 2, :, :]",
  "                    * diff_integrals[1, angmoms_b[:, None, 2], angmoms_a[None, :, 1], 2, :, :]\n                    - moment_integrals[1, angmoms_b[:, None, 2], angmoms_a[None, :, 2], 2, :, :]", "C08")
M("ang-plus", AM, "                    - moment_integrals[1, angmoms_b[:, None, 0], angmoms_a[None, :, 0], 0, :, :]", "                    + moment_integrals[1, angmoms_b[:, None, 0], angmoms_a[None, :, 0], 0, :, :]", "C08")
M("ang-origin", AM, "        moment_integrals = _compute_multipole_moment_integrals_intermediate(\n            np.zeros(3),", "        moment_integrals = _compute_multipole_moment_integrals_intermediate(\n            contractions_one.coord,", "C08")
OE = "gbasis/integrals/_one_elec_int.py"
M("oe-sign", OE, "            - rel_coord_point[:, 1, :, :, :][:, None, :, :, :] * integrals[1:, :, a, 0, :, :, :]", "            + rel_coord_point[:, 1, :, :, :][:, None, :, :, :] * integrals[1:, :, a, 0, :, :, :]", "C03")
M("oe-zcomp", OE, "        rel_coord_a[:, 2, :, :, :][:, None, None, :, :, :] * integrals[:-1, :, :, 0:1, :, :, :]", "        rel_coord_a[:, 1, :, :, :][:, None, None, :, :, :] * integrals[:-1, :, :, 0:1, :, :, :]", "C03")
M("oe-hrr", OE, "            + rel_dist[1] * integrals[:, b, 0, :, :-1, :, :, :, :]", "            + rel_dist[0] * integrals[:, b, 0, :, :-1, :, :, :, :]", "C03")
M("oe-m1", OE, "    integrals_cont = integrals[0, :, :, :, :, :, :]", "    integrals_cont = integrals[1, :, :, :, :, :, :]", "C03")
M("oe-boysarg", OE, "            (exps_sum.squeeze(axis=1) * np.sum(rel_coord_point**2, axis=1))[:, None, :, :],", "            (exps_sum.squeeze(axis=1) * np.sum(rel_coord_point**2, axis=1) ** 0.5)[:, None, :, :],", "C03")
M("oe-transpose", OE, "    integrals = np.transpose(integrals, (3, 4, 5, 0, 1, 2, 6, 7, 8))", "    integrals = np.transpose(integrals, (3, 4, 5, 0, 1, 2, 6, 8, 7))", "C03")
M("oe-m-pair", OE, "            * (integrals[:-1, a - 1, 0, 0, :, :, :] - integrals[1:, a - 1, 0, 0, :, :, :])", "            * (integrals[:-1, a - 1, 0, 0, :, :, :] + integrals[1:, a - 1, 0, 0, :, :, :])", "C03")
PCH = "gbasis/integrals/point_charge.py"
M("pc-swap-coeffs", PCH, "            coeffs_a, coeffs_b = coeffs_b, coeffs_a\n            ab_swapped = True", "            ab_swapped = True", "C03")
M("pc-unswap", PCH, "            return np.transpose(output, (2, 3, 0, 1, 4))", "            return np.transpose(output, (2, 1, 0, 3, 4))", "C03")
M("pc-charge-sign", PCH, "            -points_charge\n", "            points_charge\n", "C03")
M("pc-gather-yz", PCH, "                angmoms_b_y[None, None, None, :, None],\n                angmoms_b_z[None, None, None, :, None],", "                angmoms_b_z[None, None, None, :, None],\n                angmoms_b_y[None, None, None, :, None],", "C03")
OK("pc-swap-dir", PCH, "        if angmom_a < angmom_b:", "        if angmom_a > angmom_b:", "C03")
M("nuc-axis", "gbasis/integrals/nuclear_electron_attraction.py", "        axis=2,", "        axis=1,", "C03,C09")
TE = "gbasis/integrals/_two_elec_int.py"
M("te-eta", TE, "            + c / (2 * exps_sum_two) * integrals_etransf[:, c - 1, 0, :, 1:-1]", "            + c / (2 * exps_sum_one) * integrals_etransf[:, c - 1, 0, :, 1:-1]", "C04")
M("te-slice", TE, "            - exps_sum_one / exps_sum_two * integrals_etransf[:, :, c, :, :, 2:]", "            - exps_sum_one / exps_sum_two * integrals_etransf[:, :, c, :, :, 1:-1]", "C04")
M("te-zeta", TE, "            - harm_mean / exps_sum_one * coord_wac[1] * integrals_vert[1:, :, a, 0]", "            - harm_mean / exps_sum_two * coord_wac[1] * integrals_vert[1:, :, a, 0]", "C04")
M("te-hrr-comp", TE, "            + rel_dist_two[1] * integrals_horiz_d[:, d, :, :-1, :, :, :, :, :, :, :, :]", "            + rel_dist_two[0] * integrals_horiz_d[:, d, :, :-1, :, :, :, :, :, :, :, :]", "C04")
M("te-gather", TE, "            angmoms_c_x.reshape(1, -1),\n            angmoms_c_y.reshape(1, -1),", "            angmoms_c_y.reshape(1, -1),\n            angmoms_c_x.reshape(1, -1),", "C04")
M("te-contract", TE, "    integrals_cont = np.tensordot(integrals_cont * norm_b, coeffs_b, (7, 0))", "    integrals_cont = np.tensordot(integrals_cont * norm_b, coeffs_b, (6, 0))", "C04")
M("te-norm", TE, "    integrals *= norm_c\n", "    integrals *= norm_b\n", "C04")
M("te-ratio", TE, "        (rel_coord_c[0] + exps_sum_one / exps_sum_two * rel_coord_a[0])\n        * integrals_etransf[0:1, 0, 0, 1:-1]", "        (rel_coord_c[0] + exps_sum_two / exps_sum_one * rel_coord_a[0])\n        * integrals_etransf[0:1, 0, 0, 1:-1]", "C04")
M("te-alls-transpose", TE, "    integrals = np.transpose(integrals, (0, 2, 1, 3))\n    return integrals[None, None, None, None]", "    return integrals[None, None, None, None]", "C04")
ER = "gbasis/integrals/electron_repulsion.py"
M("eri-phys", ER, "        array = np.transpose(array, (0, 2, 1, 3))", "        array = np.transpose(array, (0, 1, 3, 2))", "C04")
M("eri-notation", ER, '    if notation == "physicist":', '    if notation == "chemist":', "C04")
M("eri-k", ER, "        integrals = np.transpose(integrals, (4, 0, 5, 1, 6, 2, 7, 3))", "        integrals = np.transpose(integrals, (4, 0, 6, 2, 5, 1, 7, 3))", "C04")

# ----------------------------------------------------------------------------------------------- C18
PS = "gbasis/parsers.py"
M("ps-stride", PS, "    atoms = data[::3]\n    angmoms = data[1::3]\n    exps_coeffs_all = data[2::3]", "    atoms = data[::2]\n    angmoms = data[1::3]\n    exps_coeffs_all = data[2::3]", "C18")
M("ps-conditional-drop", PS, "    # remove first part (everything before the first atom)\n    data = data[1:]", '    # remove first part (everything before the first atom)\n    if "\\n" in data[0]:\n        data = data[1:]', "C18")
M("ps-no-replace", PS, '            coeff_gen = [float(i.lower().replace("d", "e")) for i in coeff_gen if i is not None]', "            coeff_gen = [float(i) for i in coeff_gen if i is not None]", "C18")
M("ps-table-j", PS, '    dict_angmom = {"s": 0, "p": 1, "d": 2, "f": 3, "g": 4, "h": 5, "i": 6, "k": 7}\n    # remove first part (everything before the first atom)', '    dict_angmom = {"s": 0, "p": 1, "d": 2, "f": 3, "g": 4, "h": 5, "i": 6, "j": 7}\n    # remove first part (everything before the first atom)', "C18")
M("ps-unpack-swap", PS, "        for angmom, exps, coeffs in basis_dict[atom]:", "        for angmom, coeffs, exps in basis_dict[atom]:", "C18")
M("ps-sp-col", PS, "                output[atom].append((angmom, exps, coeffs_gen[:, i]))", "                output[atom].append((angmom, exps, coeffs_gen[:, 0]))", "C18")
M("ps-pyscf-col", "gbasis/wrappers.py", "            coeffs = np.array(exps_coeffs[:, 1:])", "            coeffs = np.array(exps_coeffs[:, 1:2])", "C18")

# ----------------------------------------------------------------------------------------------- C12
M("c12-zpass-comp", OE, "        rel_coord_a[:, 2, :, :, :][:, None, None, :, :, :] * integrals[:-1, :, :, 0:1, :, :, :]", "        rel_coord_a[:, 1, :, :, :][:, None, None, :, :, :] * integrals[:-1, :, :, 0:1, :, :, :]", "C12")
M("c12-absolute", OE, "    rel_coord_a = coord_wac - coord_a  # R_pa", "    rel_coord_a = coord_wac  # R_pa", "C12")
M("c12-hrr-comp", OE, "            + rel_dist[1] * integrals[:, b, 0, :, :-1, :, :, :, :]", "            + rel_dist[0] * integrals[:, b, 0, :, :-1, :, :, :, :]", "C12")
M("c12-et-comp", TE, "            (rel_coord_c[2] + exps_sum_one / exps_sum_two * rel_coord_a[2])\n            * integrals_etransf[:, :, c, :, :, 1:-1]", "            (rel_coord_c[2] + exps_sum_one / exps_sum_two * rel_coord_a[1])\n            * integrals_etransf[:, :, c, :, :, 1:-1]", "C12,C04")
M("c12-mom-comp", MI, "    integrals[0, 0, 1:2, :, :, :] = rel_coord_a * integrals[0, 0, 0:1, :, :, :]", "    integrals[0, 0, 1:2, :, :, :] = rel_coord_a[:, :, :, 0:1] * integrals[0, 0, 0:1, :, :, :]", "C12")
M("c12-kin-table", KE, "            np.array([[2, 0, 0], [0, 2, 0], [0, 0, 2]]),", "            np.array([[2, 0, 0], [0, 2, 0], [0, 1, 1]]),", "C12,C02")
M("c12-stable", MI, "        -harm_mean * (coord_a - coord_b) ** 2\n", "        exps_sum * coord_wac**2 - exps_a * coord_a**2 - exps_b * coord_b**2\n", "C12,C01")
M("c12-eval-abs", DV, "    gauss = np.exp(-alphas[:, None, None] * (new_coords**2))", "    gauss = np.exp(-alphas[:, None, None] * (coords.T**2))", "C12,C05")

# ----------------------------------------------------------------------------------------------- round-2 additions
NEA = "gbasis/integrals/nuclear_electron_attraction.py"
M("nea-filter-pos", NEA, "    return np.sum(\n", "    keep = nuclear_charges > 0\n    nuclear_coords = nuclear_coords[keep]\n    nuclear_charges = nuclear_charges[keep]\n    return np.sum(\n", "C03")
OK("nea-filter-nonzero", NEA, "    return np.sum(\n", "    keep = nuclear_charges != 0\n    nuclear_coords = nuclear_coords[keep]\n    nuclear_charges = nuclear_charges[keep]\n    return np.sum(\n", "C03,C09")
OK("nea-asarray", NEA, "    return np.sum(\n", "    nuclear_charges = np.asarray(nuclear_charges)\n    return np.sum(\n", "C03,C09")
M("nea-abs", NEA, "    return np.sum(\n", "    nuclear_charges = np.abs(nuclear_charges)\n    return np.sum(\n", "C03")
OVL = "gbasis/integrals/overlap.py"
M("scr-wrapper-disables", OVL, '    kwargs = {"tol_screen": tol_screen}\n', '    if len(basis) < 3:\n        tol_screen = None\n    kwargs = {"tol_screen": tol_screen}\n', "C20")
OK("scr-wrapper-same", OVL, '    kwargs = {"tol_screen": tol_screen}\n', '    tol_screen = tol_screen if tol_screen is not None else tol_screen\n    kwargs = {"tol_screen": tol_screen}\n', "C20")
M("scr-wrapper-scale", OVL, '    kwargs = {"tol_screen": tol_screen}\n', '    if tol_screen is not None:\n        tol_screen = tol_screen * 10\n    kwargs = {"tol_screen": tol_screen}\n', "C20")
CT = "    coord_type = [ct for ct in [shell.coord_type for shell in basis]]\n"
KINW = "gbasis/integrals/kinetic_energy.py"
M("inputs-basis-reversed", KINW, CT, "    basis = basis[::-1]\n" + CT, "C02")
OK("inputs-basis-list", KINW, CT, "    basis = list(basis)\n" + CT, "C02,C09")
M("inputs-transform-T", "gbasis/integrals/momentum.py", CT, "    if transform is not None and transform.shape[0] == transform.shape[1]:\n        transform = transform * 1.0000001\n" + CT, "C08")
M("inputs-moment-origin", "gbasis/integrals/moment.py", CT, "    moment_coord = moment_coord - basis[0].coord\n" + CT, "C07")
PARS = "gbasis/parsers.py"
M("gbs-rows-break", PARS, "                except AttributeError:\n                    continue\n", "                except AttributeError:\n                    break\n", "C18")
M("nw-rows-prefix", PARS, '        exps_coeffs = exps_coeffs.split("\\n")\n', '        exps_coeffs = exps_coeffs.split("\\n")[:-1]\n', "C18")
OK("nw-rows-splitlines", PARS, '        exps_coeffs = exps_coeffs.split("\\n")\n', '        exps_coeffs = exps_coeffs.splitlines()\n', "C18")
TWO = "gbasis/integrals/_two_elec_int.py"
_ALLS_OLD = '    norm_a = ((2 * exps_a / np.pi) ** (3 / 4)).reshape(1, 1, 1, -1)\n    integrals = np.tensordot(integrals * norm_a, coeffs_a, (3, 0))\n\n    norm_c = ((2 * exps_c / np.pi) ** (3 / 4)).reshape(1, 1, -1, 1)\n    integrals = np.tensordot(integrals * norm_c, coeffs_c, (2, 0))\n\n    norm_b = ((2 * exps_b / np.pi) ** (3 / 4)).reshape(1, -1, 1, 1)\n    integrals = np.tensordot(integrals * norm_b, coeffs_b, (1, 0))\n\n    norm_d = ((2 * exps_d / np.pi) ** (3 / 4)).reshape(-1, 1, 1, 1)\n    integrals = np.tensordot(integrals * norm_d, coeffs_d, (0, 0))\n\n    integrals = np.transpose(integrals, (0, 2, 1, 3))\n'
_ALLS_EINSUM = '    norm_a = (2 * exps_a / np.pi) ** (3 / 4)\n    norm_b = (2 * exps_b / np.pi) ** (3 / 4)\n    norm_c = (2 * exps_c / np.pi) ** (3 / 4)\n    norm_d = (2 * exps_d / np.pi) ** (3 / 4)\n    integrals = np.einsum(\n        "dbca,ai,bj,ck,dl->ijkl", integrals * norm_a * norm_b * norm_c * norm_d, coeffs_a, coeffs_b, coeffs_c, coeffs_d\n    )\n'
OK("alls-einsum-refactor", TWO, _ALLS_OLD, _ALLS_EINSUM, "C04,C13,C11,C12,C16,C19")
M("alls-einsum-swapped", TWO, _ALLS_OLD, _ALLS_EINSUM.replace("->ijkl", "->ikjl"), "C04,C13")
M("alls-einsum-wrong-coeffs", TWO, _ALLS_OLD, _ALLS_EINSUM.replace("coeffs_a, coeffs_b, coeffs_c", "coeffs_a, coeffs_c, coeffs_b"), "C04")
DEN = "gbasis/evals/density.py"
_THR_OLD = "    min_output = np.min(output)\n    if min_output < 0.0 and abs(min_output) > threshold:\n        raise ValueError(f\"Found negative density <= {-threshold}, got {min_output}.\")\n    return output.clip(min=0.0)\n"
OK("thr-any-form", DEN, _THR_OLD, "    min_output = np.min(output)\n    if np.any(output < -threshold):\n        raise ValueError(f\"Found negative density <= {-threshold}, got {min_output}.\")\n    return output.clip(min=0.0)\n", "C06")
OK("thr-subset-max", DEN, _THR_OLD, "    negative = output[output < 0.0]\n    if negative.size > 0 and np.max(np.abs(negative)) > threshold:\n        raise ValueError(f\"Found negative density <= {-threshold}.\")\n    return output.clip(min=0.0)\n", "C06")
M("thr-subset-min", DEN, _THR_OLD, "    negative = output[output < 0.0]\n    if negative.size > 0 and np.min(np.abs(negative)) > threshold:\n        raise ValueError(f\"Found negative density <= {-threshold}.\")\n    return output.clip(min=0.0)\n", "C06")
M("thr-max-instead", DEN, _THR_OLD, "    min_output = np.max(output)\n    if min_output < 0.0 and abs(min_output) > threshold:\n        raise ValueError(f\"Found negative density <= {-threshold}, got {min_output}.\")\n    return output.clip(min=0.0)\n", "C06")
M("thr-all-form", DEN, _THR_OLD, "    min_output = np.min(output)\n    if np.all(output < -threshold):\n        raise ValueError(f\"Found negative density <= {-threshold}, got {min_output}.\")\n    return output.clip(min=0.0)\n", "C06")
OK("rdm-npdot", DEN, "    density = one_density_matrix.dot(deriv_orb_eval_two)\n", "    density = np.dot(one_density_matrix, deriv_orb_eval_two)\n", "C06,C15,C19")
M("rdm-inplace-alias", DEN, "    density = one_density_matrix.dot(deriv_orb_eval_two)\n    density *= deriv_orb_eval_one\n",
  "    density = one_density_matrix.dot(deriv_orb_eval_two)\n    deriv_orb_eval_two *= 2\n    density *= deriv_orb_eval_one\n    density *= 0.5\n", "C06")
B4 = "gbasis/base_four_symm.py"
B1 = "gbasis/base_one.py"
M("b1-identity-sp", B1, '                transform = generate_transformation(\n                    cont.angmom, cont.angmom_components_cart, cont.angmom_components_sph, "left"\n                )\n                # Apply the transform.', '                if cont.angmom < 2:\n                    transform = np.identity(cont.num_cart)\n                else:\n                    transform = generate_transformation(\n                        cont.angmom, cont.angmom_components_cart, cont.angmom_components_sph, "left"\n                    )\n                # Apply the transform.', "C09")
OK("b1-identity-s-only", B1, '                transform = generate_transformation(\n                    cont.angmom, cont.angmom_components_cart, cont.angmom_components_sph, "left"\n                )\n                # Apply the transform.', '                if cont.angmom == 0:\n                    transform = np.identity(cont.num_cart)\n                else:\n                    transform = generate_transformation(\n                        cont.angmom, cont.angmom_components_cart, cont.angmom_components_sph, "left"\n                    )\n                # Apply the transform.', "C09,C13,C16,C11")
