#!/usr/bin/env python3
"""Firing self-test: every mutant in mutants.py (one edit each, applied to a scratch copy of /repo/gbasis outside /repo and /verif)
must make the listed checks report a VIOLATION (exit 1), every benign edit must leave them silent (exit 0).  Also applies
the seeded patches under /verif/seeded/.  Usage: run.py [--jobs N] [--only ID[,ID]] [--checks C01,C02]"""
import argparse
import json
import os
import shutil
import subprocess
import sys
import tempfile
from concurrent.futures import ThreadPoolExecutor

HERE = os.path.dirname(os.path.abspath(__file__))
VERIF = os.path.dirname(HERE)
REPO = os.environ.get("GBSA_REPO", "/repo")
JOBS = int(os.environ.get("GBSA_JOBS", "16"))
sys.path.insert(0, HERE)


def apply_text(root, m):
    p = os.path.join(root, m["file"])
    s = open(p).read()
    if s.count(m["old"]) < 1:
        return False
    open(p, "w").write(s.replace(m["old"], m["new"], 1))
    try:
        compile(open(p).read(), p, "exec")
    except SyntaxError:
        return False
    return True


def run_one(m):
    d = tempfile.mkdtemp(prefix="gbsa-selftest.")
    try:
        shutil.copytree(os.path.join(REPO, "gbasis"), os.path.join(d, "gbasis"))
        if "patch" in m:
            r = subprocess.run(["patch", "-s", "-p1", "-i", m["patch"]], cwd=d, capture_output=True, text=True)
            if r.returncode != 0:
                return m, "SKIP (patch does not apply)", {}
        elif not apply_text(d, m):
            return m, "SKIP (anchor text absent)", {}
        res = {}
        for chk in m["checks"]:
            r = subprocess.run([os.path.join(VERIF, "check"), chk, "--repo", d, "--no-evidence"], capture_output=True, text=True)
            first = [l for l in r.stdout.split("\n") if "[" in l and "]" in l and not l.startswith("VIOLATION")][:1]
            res[chk] = (r.returncode, first[0][:160] if first else r.stdout.strip().split("\n")[-1][:160])
        return m, "RAN", res
    finally:
        shutil.rmtree(d, ignore_errors=True)


def collect_items(only=None, checks=None):
    from mutants import MUTANTS, BENIGN
    items = []
    for m in MUTANTS:
        items.append(dict(m, kind="mutant"))
    for m in BENIGN:
        items.append(dict(m, kind="benign"))
    seeded = os.path.join(VERIF, "seeded")
    if os.path.isdir(seeded):
        for sid in sorted(os.listdir(seeded)):
            meta = os.path.join(seeded, sid, "meta.json")
            if os.path.exists(meta):
                mt = json.load(open(meta))
                if mt.get("caught_by"):
                    items.append(dict(id="seed-" + sid, patch=os.path.join(seeded, sid, "patch.diff"), checks=mt["caught_by"], kind="mutant"))
    if only:
        keep = set(only)
        items = [m for m in items if m["id"] in keep]
    if checks:
        ck = set(checks)
        items = [dict(m, checks=[c for c in m["checks"] if c in ck]) for m in items]
        items = [m for m in items if m["checks"]]
    return items


def run_items(items, jobs=16, quiet=True, out=print):
    """-> summary dict; every variant is applied to its own scratch copy (removed afterwards)."""
    bad = []
    skipped = []
    fired = 0
    silent = 0
    with ThreadPoolExecutor(max_workers=jobs) as ex:
        for m, status, res in ex.map(run_one, items):
            if status != "RAN":
                skipped.append(m["id"])
                if not quiet:
                    out(f"{m['id']:28s} {status}")
                continue
            for chk, (rc, line) in res.items():
                want = 1 if m["kind"] == "mutant" else 0
                ok = rc == want
                if ok:
                    if want:
                        fired += 1
                    else:
                        silent += 1
                else:
                    bad.append({"variant": m["id"], "check": chk, "exit": rc, "wanted": want, "first_line": line})
                if not ok or not quiet:
                    out(f"{m['id']:28s} {chk} rc={rc} {'ok ' if ok else 'UNEXPECTED (want %d)' % want} {line}")
    return {"variants": len(items), "fired_as_required": fired, "silent_as_required": silent, "skipped_anchor_absent": skipped, "unexpected": bad}


def main():
    ap = argparse.ArgumentParser()
    ap.add_argument("--jobs", type=int, default=16)
    ap.add_argument("--only", default=None)
    ap.add_argument("--checks", default=None)
    ap.add_argument("--quiet", action="store_true")
    a = ap.parse_args()
    items = collect_items(a.only.split(",") if a.only else None, a.checks.split(",") if a.checks else None)
    r = run_items(items, a.jobs, a.quiet)
    print(f"selftest: {r['variants']} variants, {len(r['skipped_anchor_absent'])} skipped, {len(r['unexpected'])} unexpected outcomes")
    return 1 if r["unexpected"] else 0


if __name__ == "__main__":
    sys.exit(main())
