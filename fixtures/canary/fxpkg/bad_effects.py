"""Canary fixtures for the EFFECTS rules: every function here violates exactly one rule.
These files are never imported or run; they are parsed by the checker on every run to make sure
that each rule still fires (a rule that matches nothing passes vacuously forever)."""
import numpy as np

_CACHE = {}


def e1_mutates_param_through_view(coords, center):
    view = coords.T
    view -= center[:, None]
    return view.sum()


def e1_mutates_param_via_helper(points):
    _helper_fill(points)
    return points.sum()


def _helper_fill(buf):
    buf[0] = 0.0


def e1_pops_param(coord_types):
    return coord_types.pop(0)


def ok_rebinds_then_updates(coords, center):
    coords = coords - center
    coords -= 1.0
    return coords


def ok_local_buffer(n):
    out = np.zeros(n)
    _helper_fill(out)
    out *= 2
    return out


class Kernel:
    @staticmethod
    def construct_array_contraction(contractions_one, contractions_two):
        return contractions_one.coeffs[:, None]


def e3_module_cache(key, value):
    _CACHE[key] = value
    return _CACHE


def e3_global_statement(x):
    global _CACHE
    _CACHE = {x: 1}
    return x


def e4_unpaired_seterr(x):
    old = np.seterr(divide="ignore")
    y = 1 / x
    np.seterr(**old)
    return y


def ok_errstate_context(x):
    with np.errstate(divide="ignore"):
        return 1 / x


def ok_seterr_finally(x):
    old = np.seterr(divide="ignore")
    try:
        return 1 / x
    finally:
        np.seterr(**old)
