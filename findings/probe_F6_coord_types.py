"""Probe for finding F6 (C18/C19): make_contractions accepts a list or a tuple of coordinate
types and leaves the caller's sequence intact. Run with /venv/bin/python from /repo."""
import numpy as np
from gbasis.parsers import make_contractions
bd = {"H": [(0, np.array([1.0, 2.0]), np.array([[0.5], [0.5]])), (1, np.array([0.7]), np.array([[1.0]]))]}
coords = np.array([[0.0, 0.0, 0.0], [0.0, 0.0, 1.4]])
bad = 0
ct = ["cartesian", "spherical", "spherical", "cartesian"]
keep = list(ct)
sh = make_contractions(bd, ["H", "H"], coords, ct)
print("list after call:", ct); bad |= ct != keep
print([s.coord_type for s in sh]); bad |= [s.coord_type for s in sh] != keep
try:
    sh = make_contractions(bd, ["H", "H"], coords, tuple(keep))
    bad |= [s.coord_type for s in sh] != keep
except AttributeError as e:
    print("tuple rejected:", e); bad = 1
raise SystemExit(1 if bad else 0)
