"""Probe for finding F7 (C18): NWChem / Gaussian94 files with zero, one or many lines before the
first element return every shell. Run with /venv/bin/python from /repo."""
import os, tempfile
import numpy as np
from gbasis.parsers import parse_nwchem, parse_gbs
nw = "H    S\n      3.42525091             0.15432897\n      0.62391373             0.53532814\nH    P\n      1.0   1.0\nHe    S\n      6.36242139             0.15432897\n"
gbs = "H     0\nS   2   1.00\n      3.42525091             0.15432897\n      0.62391373             0.53532814\nP   1   1.00\n      1.0   1.0\n****\nHe     0\nS   1   1.00\n      6.36242139             0.15432897\n****\n"
bad = 0
for name, fn, body in (("nwchem", parse_nwchem, nw), ("gbs", parse_gbs, gbs)):
    for nhead, head in ((0, ""), (1, "# one header line\n"), (3, "# a\n# b\n\n")):
        if name == "gbs":
            head = head.replace("#", "!")
        with tempfile.NamedTemporaryFile("w", suffix="." + name, delete=False) as fh:
            fh.write(head + body)
        try:
            out = fn(fh.name)
            got = {k: [(s[0], len(s[1])) for s in v] for k, v in out.items()}
            ok = got == {"H": [(0, 2), (1, 1)], "He": [(0, 1)]}
        except Exception as e:
            got, ok = repr(e), False
        os.unlink(fh.name)
        print(name, "header lines:", nhead, "OK" if ok else "WRONG", got)
        bad |= not ok
raise SystemExit(1 if bad else 0)
