"""Probe for finding F1 (C08/C11): momentum / angular-momentum matrices must be Hermitian.
Run with /venv/bin/python from /repo. Prints max|M - M^dagger| per operator."""
import numpy as np
from gbasis.contractions import GeneralizedContractionShell as S
from gbasis.integrals.momentum import momentum_integral
from gbasis.integrals.angular_momentum import angular_momentum_integral
b = [S(1, np.array([0.1, 0.2, 0.3]), np.array([1.0]), np.array([0.8]), "cartesian"),
     S(0, np.array([0.5, -0.4, 0.9]), np.array([1.0]), np.array([1.3]), "cartesian"),
     S(2, np.array([-0.7, 0.3, 0.2]), np.array([1.0]), np.array([0.6]), "spherical")]
bad = 0
for f in (momentum_integral, angular_momentum_integral):
    m = f(b)
    d = max(np.abs(m[:, :, k] - m[:, :, k].conj().T).max() for k in range(3))
    print(f.__name__, "max|M-M^H| =", d)
    bad |= d > 1e-10
raise SystemExit(1 if bad else 0)
