"""Probe for finding F2 (C14): a nucleus is dropped exactly when its distance to the point is
below threshold_dist, whatever its charge. Run with /venv/bin/python from /repo."""
import numpy as np
from gbasis.contractions import GeneralizedContractionShell as S
from gbasis.evals.electrostatic_potential import electrostatic_potential as esp
b = [S(0, np.array([0.0, 0.0, 0.0]), np.array([1.0]), np.array([1.0]), "cartesian")]
P = np.zeros((1, 1))  # no electrons: potential is the nuclear term alone
pts = np.array([[0.0, 0.0, 0.5]])
nuc = np.array([[0.0, 0.0, 0.0]])
bad = 0
# Z=3 at distance 0.5, threshold 0.4 (< distance): must be kept, V = 3/0.5 = 6
v = esp(b, P, pts, nuc, np.array([3.0]), threshold_dist=0.4)[0]
print("Z=3 d=0.5 thr=0.4 ->", v, "(expected 6)"); bad |= abs(v - 6) > 1e-12
# Z=-2 at distance 0.5, threshold 0.6 (> distance): must be dropped, V = 0
v = esp(b, P, pts, nuc, np.array([-2.0]), threshold_dist=0.6)[0]
print("Z=-2 d=0.5 thr=0.6 ->", v, "(expected 0)"); bad |= abs(v) > 1e-12
raise SystemExit(1 if bad else 0)
