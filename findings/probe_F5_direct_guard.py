"""Probe for finding F5 (C05): a request the 'direct' back-end cannot honour (an order > 2, or an
unknown back-end name) is rejected rather than answered with different numbers.
Run with /venv/bin/python from /repo."""
import numpy as np
from gbasis.contractions import GeneralizedContractionShell as S
from gbasis.evals.eval_deriv import evaluate_deriv_basis as edb
b = [S(1, np.array([0.1, 0.2, 0.3]), np.array([1.0]), np.array([0.8]), "cartesian"),
     S(0, np.array([0.5, -0.4, 0.9]), np.array([1.0]), np.array([1.3]), "cartesian")]
pts = np.array([[0.3, 0.1, 0.2], [1.0, -0.5, 0.4]])
bad = 0
g = edb(b, pts, np.array([3, 0, 0]), deriv_type="general")
try:
    d = edb(b, pts, np.array([3, 0, 0]), deriv_type="direct")
    print("direct answered orders (3,0,0); max |direct-general| =", np.abs(d - g).max())
    bad |= not np.allclose(d, g)
except ValueError as e:
    print("rejected:", e)
try:
    edb(b, pts, np.array([1, 0, 0]), deriv_type="drect")
    print("unknown back-end name answered"); bad = 1
except (ValueError, TypeError) as e:
    print("rejected:", e)
except UnboundLocalError as e:
    print("crashed:", e); bad = 1
raise SystemExit(1 if bad else 0)
