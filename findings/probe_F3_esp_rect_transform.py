"""Probe for finding F3 (C14): with a rectangular transform T (K_orbs x K_ao) and a density matrix
in the transformed orbitals, the potential equals the untransformed one with P_ao = T^T P T.
Run with /venv/bin/python from /repo."""
import numpy as np
from gbasis.contractions import GeneralizedContractionShell as S
from gbasis.evals.electrostatic_potential import electrostatic_potential as esp
b = [S(0, np.array([0.0, 0.0, 0.0]), np.array([1.0]), np.array([1.0]), "cartesian"),
     S(1, np.array([0.3, 0.1, -0.2]), np.array([1.0]), np.array([0.7]), "cartesian")]
rng = np.random.RandomState(1)
T = rng.rand(3, 4)
P = rng.rand(3, 3); P = P + P.T
pts = rng.rand(5, 3) + 1.0
nuc = np.array([[0.0, 0.0, 0.0], [0.3, 0.1, -0.2]]); Z = np.array([1.0, 2.0])
try:
    v = esp(b, P, pts, nuc, Z, transform=T)
except ValueError as e:
    print("raised:", e); raise SystemExit(1)
ref = esp(b, T.T @ P @ T, pts, nuc, Z)
print("max diff", np.abs(v - ref).max())
raise SystemExit(0 if np.allclose(v, ref, atol=1e-10) else 1)
