"""Probe for finding F4 (C19): the process-wide floating-point error settings are unchanged after
electrostatic_potential raises. Run with /venv/bin/python from /repo."""
import numpy as np
from gbasis.contractions import GeneralizedContractionShell as S
from gbasis.evals.electrostatic_potential import electrostatic_potential as esp
b = [S(0, np.array([0.0, 0.0, 0.0]), np.array([1.0]), np.array([1.0]), "cartesian")]
before = np.geterr()
try:
    esp(b, np.ones((1, 1)), np.array([[0.0, 0.0, 1.0]]), np.zeros((1, 3)), np.array(["a"]))
except Exception as e:  # the call is invalid on purpose
    print("raised", type(e).__name__)
after = np.geterr()
print(before, after)
raise SystemExit(0 if before == after else 1)
